//! Units of work: a property check is a list of units; a unit is one exhaustive exploration
//! (an E1 class on one input kind / configuration, a Pratt sweep, a cursor-machine search, ...).
//! Units are sharded over worker subprocesses by a stride over their outermost enumeration.

use crate::e1::{self, Acc, Job};
use cvm::ast::{Tok, G};
use cvm::sem::{Probes, Sw};
use serde_json::{json, Value};
use std::collections::BTreeMap;

#[derive(Clone, Copy, Debug, PartialEq, Eq)]
pub enum Tier {
    Quick,
    Thorough,
}

#[derive(Clone, Copy, Debug, PartialEq, Eq)]
pub enum KindId {
    Str,
    StrMb,
    Slice,
    Stream,
    BoxedStream,
    Mapped,
    MappedGapped,
    U8,
    Io,
    IoFaulty,
    WithContext,
    WithContextMb,
    MapSpan,
    Array3,
    Bytes,
}

impl KindId {
    pub fn name(self) -> &'static str {
        match self {
            KindId::Str => "&str",
            KindId::StrMb => "&str(multibyte)",
            KindId::Slice => "&[char]",
            KindId::Stream => "Stream",
            KindId::BoxedStream => "BoxedStream(no size hint)",
            KindId::Mapped => "Input::map(contiguous)",
            KindId::MappedGapped => "Input::map(gapped)",
            KindId::U8 => "&[u8]",
            KindId::Io => "IoInput",
            KindId::IoFaulty => "IoInput(reader with short reads and interrupts)",
            KindId::WithContext => "with_context",
            KindId::WithContextMb => "with_context(multibyte)",
            KindId::MapSpan => "map_span",
            KindId::Array3 => "&[char; 3]",
            KindId::Bytes => "bytes::Bytes",
        }
    }
    pub fn from_name(s: &str) -> Option<KindId> {
        use KindId::*;
        // sub-runs of the reader-backed kinds are labelled more precisely: a replay re-runs the whole kind (all its readers)
        if s.starts_with("IoInput(reader: ") {
            return Some(IoFaulty);
        }
        if s.starts_with("IoInput(reader handed over") {
            return Some(Io);
        }
        [Str, StrMb, Slice, Stream, BoxedStream, Mapped, MappedGapped, U8, Io, IoFaulty, WithContext, WithContextMb, MapSpan, Array3, Bytes].into_iter().find(|k| k.name() == s)
    }
}

#[derive(Clone, Copy, Debug, PartialEq, Eq)]
pub enum CfgId {
    Empty,
    Cheap,
    Simple,
    Rich,
    RichSt,
    RichCx,
}

impl CfgId {
    pub fn name(self) -> &'static str {
        match self {
            CfgId::Empty => "EmptyErr",
            CfgId::Cheap => "Cheap",
            CfgId::Simple => "Simple",
            CfgId::Rich => "Rich",
            CfgId::RichSt => "Rich+Track",
            CfgId::RichCx => "Rich+ctx",
        }
    }
    pub fn from_name(s: &str) -> Option<CfgId> {
        use CfgId::*;
        [Empty, Cheap, Simple, Rich, RichSt, RichCx].into_iter().find(|k| k.name() == s)
    }
}

/// One E1 exploration.
pub struct E1Unit {
    pub name: String,
    pub grammars: Vec<G>,
    pub class_desc: String,
    pub alphabet: Vec<Tok>,
    pub max_len: usize,
    pub kind: KindId,
    pub cfg: CfgId,
    pub probes: Probes,
    pub alarm: u32,
    pub skip_not_content: bool,
    pub lazy: bool,
    /// differential unit: `grammars` holds pairs (2k, 2k+1)
    pub pair_mode: Option<e1::PairMode>,
    pub clone_mode: bool,
    /// explicit input list (instead of all strings over `alphabet` up to `max_len`)
    pub explicit_inputs: Option<Vec<Vec<Tok>>>,
    /// run the statically typed (generated) parsers of this set instead of the boxed interpreter;
    /// `grammars` is then filled from the registered static table
    pub static_set: Option<String>,
}

#[derive(Default, Clone, Debug)]
pub struct UnitResult {
    pub name: String,
    pub desc: String,
    pub cases: u64,
    pub states: u64,
    pub transitions: u64,
    pub validated: u64,
    pub counters: BTreeMap<String, u64>,
    pub mismatches: Vec<Value>,
    pub mismatch_count: u64,
    pub samples: Vec<String>,
    pub distinct_outcomes: u64,
    pub exhaustive: bool,
}

impl UnitResult {
    pub fn to_json(&self) -> Value {
        json!({
            "name": self.name, "desc": self.desc, "cases": self.cases, "states": self.states,
            "transitions": self.transitions, "validated": self.validated, "counters": self.counters,
            "mismatches": self.mismatches, "mismatch_count": self.mismatch_count, "samples": self.samples,
            "distinct_outcomes": self.distinct_outcomes, "exhaustive": self.exhaustive,
        })
    }
    pub fn from_json(v: &Value) -> UnitResult {
        let gu = |k: &str| v[k].as_u64().unwrap_or(0);
        UnitResult {
            name: v["name"].as_str().unwrap_or("").into(),
            desc: v["desc"].as_str().unwrap_or("").into(),
            cases: gu("cases"),
            states: gu("states"),
            transitions: gu("transitions"),
            validated: gu("validated"),
            counters: v["counters"].as_object().map(|m| m.iter().map(|(k, x)| (k.clone(), x.as_u64().unwrap_or(0))).collect()).unwrap_or_default(),
            mismatches: v["mismatches"].as_array().cloned().unwrap_or_default(),
            mismatch_count: gu("mismatch_count"),
            samples: v["samples"].as_array().map(|a| a.iter().filter_map(|s| s.as_str().map(String::from)).collect()).unwrap_or_default(),
            distinct_outcomes: gu("distinct_outcomes"),
            exhaustive: v["exhaustive"].as_bool().unwrap_or(false),
        }
    }
    pub fn merge(&mut self, o: &UnitResult) {
        self.cases += o.cases;
        self.states += o.states;
        self.transitions += o.transitions;
        self.validated += o.validated;
        for (k, v) in &o.counters {
            *self.counters.entry(k.clone()).or_default() += v;
        }
        self.mismatches.extend(o.mismatches.iter().cloned());
        self.mismatch_count += o.mismatch_count;
        for s in &o.samples {
            if self.samples.len() < 6 {
                self.samples.push(s.clone());
            }
        }
        self.distinct_outcomes += o.distinct_outcomes;
        self.exhaustive = self.exhaustive && o.exhaustive;
    }
}

pub struct ShardCtx<'c> {
    pub shard: usize,
    pub nshards: usize,
    pub known: Sw,
    /// grammar indices (of the current unit) to skip because they reproducibly kill the process
    pub skip: Vec<usize>,
    pub progress: &'c dyn Fn(usize),
}

/// Monomorphised E1 runners live in the `inst/i*` crates (compiled in parallel); the binary
/// registers them here.  A runner returns false when the (kind, cfg) pair is not one of its own.
pub type E1Runner = fn(KindId, CfgId, &Job, &mut Acc) -> bool;
static RUNNERS: std::sync::OnceLock<Vec<E1Runner>> = std::sync::OnceLock::new();
pub fn register_runners(v: Vec<E1Runner>) {
    let _ = RUNNERS.set(v);
}

/// (set name, grammar text, generated case function) — registered by the binary from the cvh-static-* crates
pub type StaticCase = (&'static str, &'static str, crate::stat::CaseFn);
static STATIC: std::sync::OnceLock<Vec<StaticCase>> = std::sync::OnceLock::new();
pub fn register_static(v: Vec<StaticCase>) {
    let _ = STATIC.set(v);
}
pub fn static_cases(set: &str) -> Vec<(G, crate::stat::CaseFn)> {
    STATIC
        .get()
        .map(|v| v.iter().filter(|(s, _, _)| *s == set).map(|(_, g, f)| (cvm::ast::parse_g(g).unwrap_or_else(|e| panic!("static table: {g}: {e}")), *f)).collect())
        .unwrap_or_default()
}

fn inputs_filter_single_grammar(u: &E1Unit) -> bool {
    u.name == "replay" && u.grammars.len() == 1
}

pub fn run_e1_unit(u: &E1Unit, cx: &ShardCtx) -> UnitResult {
    run_e1_unit_on(u, cx, None)
}

pub fn run_e1_unit_on(u: &E1Unit, cx: &ShardCtx, inputs: Option<Vec<Vec<Tok>>>) -> UnitResult {
    let inputs = inputs.or_else(|| u.explicit_inputs.clone()).unwrap_or_else(|| cvm::enumerate::inputs(&u.alphabet, u.max_len));
    let mut acc = Acc::default();
    let skip = cx.skip.clone();
    let prog = |gi: usize| (cx.progress)(gi);
    // skipped grammars are removed by replacing them with a trivially fine grammar is wrong —
    // instead the job iterates by stride and we filter by index here
    let mut grammars: Vec<G> = u.grammars.clone();
    let mut fns: Vec<crate::stat::CaseFn> = vec![];
    if let Some(set) = &u.static_set {
        let cs = static_cases(set);
        grammars = cs.iter().map(|(g, _)| g.clone()).collect();
        fns = cs.iter().map(|(_, f)| *f).collect();
        if inputs_filter_single_grammar(u) {
            // replay: keep only the requested grammar
            let want = u.grammars[0].to_string();
            let keep: Vec<usize> = (0..grammars.len()).filter(|i| grammars[*i].to_string() == want).collect();
            grammars = keep.iter().map(|i| grammars[*i].clone()).collect();
            fns = keep.iter().map(|i| fns[*i]).collect();
        }
    }
    let job = Job {
        grammars: &grammars,
        inputs: &inputs,
        probes: u.probes,
        alarm: u.alarm,
        skip_not_content: u.skip_not_content,
        known: cx.known,
        kind_name: u.kind.name(),
        cfg_name: u.cfg.name(),
        progress: &prog,
        first: cx.shard,
        stride: cx.nshards,
        skip: &skip,
        lazy: u.lazy,
        pair_mode: u.pair_mode,
        clone_mode: u.clone_mode,
        static_cases: if u.static_set.is_some() { Some(&fns) } else { None },
    };
    let handled = RUNNERS.get().map(|rs| rs.iter().any(|r| r(u.kind, u.cfg, &job, &mut acc))).unwrap_or(false);
    if !handled {
        panic!("harness: (kind {:?}, cfg {:?}) is not instantiated by any inst crate", u.kind, u.cfg);
    }
    let mut counters = BTreeMap::new();
    counters.insert("accepted".into(), acc.accepted);
    counters.insert("rejected".into(), acc.rejected);
    counters.insert("accepted_with_emissions".into(), acc.with_emissions);
    counters.insert("panics".into(), acc.panics);
    counters.insert("unspecified_skipped".into(), acc.unspecified);
    counters.insert("rewinds_that_discarded_emissions".into(), acc.stats.discarded_emissions);
    counters.insert("error_merges_at_equal_position".into(), acc.stats.merges);
    counters.insert("error_replacements_by_later_failure".into(), acc.stats.replacements);
    counters.insert("earlier_failures_ignored".into(), acc.stats.ignored_earlier);
    counters.insert("empty_span_probes".into(), acc.stats.empty_spans);
    counters.insert("abandoned_alternatives".into(), acc.stats.backtracks);
    counters.insert("recoveries".into(), acc.stats.recoveries);
    if matches!(u.kind, KindId::Stream | KindId::BoxedStream) {
        counters.insert("stream_items_pulled".into(), e1::PULLS.with(|p| p.get()));
    }
    for (k, v) in &acc.mismatch_by_cat {
        counters.insert(format!("mismatch_{k}"), *v);
    }
    for (k, v) in &acc.explained_counts {
        counters.insert(format!("mismatches_explained_by:{k}"), *v);
    }
    UnitResult {
        name: u.name.clone(),
        desc: format!(
            "E1{} {}: {} grammars x {} inputs (alphabet {:?}, length <= {}) on {} with {}",
            match u.pair_mode { Some(m) => format!(" differential pairs ({})", e1::pair_mode_name(Some(m))), None => String::new() },
            u.class_desc,
            if u.pair_mode.is_some() { grammars.len() / 2 } else { grammars.len() },
            inputs.len(),
            u.alphabet.iter().collect::<String>(),
            u.max_len,
            u.kind.name(),
            u.cfg.name()
        ),
        cases: acc.cases,
        states: acc.stats.states,
        transitions: acc.stats.steps,
        validated: acc.cases - acc.unspecified,
        counters,
        mismatches: acc
            .mismatches
            .iter()
            .map(|m| {
                json!({
                    "engine": "e1", "unit": u.name, "categories": e1::cat_names(m.mask), "grammar": m.grammar, "input": m.input,
                    "kind": m.kind, "cfg": m.cfg, "probes": [u.probes.span, u.probes.state, u.probes.ctx],
                    "alarm": u.alarm, "skip_not_content": u.skip_not_content, "lazy": u.lazy, "pair_mode": e1::pair_mode_name(u.pair_mode), "clone_mode": u.clone_mode, "static_set": u.static_set,
                    "detail": m.detail, "explained_by": m.explained_by,
                })
            })
            .collect(),
        mismatch_count: acc.mismatch_count,
        samples: acc.samples.clone(),
        distinct_outcomes: acc.distinct_outcomes.len() as u64,
        exhaustive: true,
    }
}
