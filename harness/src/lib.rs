//! cvh — harness side: interpreter from the model's AST to real chumsky parsers, exploration engines.
pub mod e1;
pub mod interp;
pub mod replay;
pub mod stat;
pub mod unit;

/// Replay hook for the non-E1 engines.
pub fn replay_custom(engine: &str, _v: &serde_json::Value) -> Result<Option<String>, String> {
    Err(format!("unknown engine {engine:?} in replay file"))
}
