#!/usr/bin/env python3
"""Regenerate /verif/MANIFEST.json from the table below (kept in one place so it stays valid)."""
import json, subprocess, sys, os

ROOT = os.path.dirname(os.path.dirname(os.path.abspath(__file__)))

# property id -> (engine, technique, level text, level note, design ref)
E1T = 'bounded exhaustive enumeration of grammar trees x inputs (explicit-state style: every enumerated case is evaluated by the reference model and replayed on the implementation through parse() and check())'
NOTE = 'Trusted: the reference evaluator cvm::sem (no chumsky code) with the pinned conventions of DESIGN.md section 2, the fixed user closures named in the grammar AST, rustc. Every node is .boxed() unless a unit says otherwise. Bounds actually completed are in the evidence file.'
CLAIMED = {
    'C01': ("e1-conformance", E1T, "Every combinator tree of class K01 (primitives, sequence, ordered choice, option, look-ahead, map/filter/try_map, groups, choices in tuple/Vec/array form, basic repetition) up to the node bound, on every input over {a,b,c} up to the length bound, on &str (ASCII and multi-byte rendering) and &[char]: acceptance, output value and the extent consumed by every sub-parser on the surviving path equal the reference PEG evaluator's. Exhaustive within the bounds stated in the evidence file; nothing is sampled.", NOTE, 'DESIGN.md section 4, C01'),
    'C02': ("e1-conformance", E1T, "Every repeated()/separated_by() template: item x separator x all bounds at_least/at_most/exactly in 0..4 (also supplied through configure()) x allow_leading/allow_trailing x every sink (Vec, String, count, bare, enumerate, collect_exactly [_;0..3], foldl, foldr, foldl_with, foldr_with), each followed by a capture of the unconsumed rest, on every input over {a,b,','} up to the length bound: acceptance, item sequence, fold order and the position left behind equal the reference model's. The two documented-contradictory separator corners are counted and skipped. Exhaustive within the bounds stated in the evidence file; nothing is sampled.", NOTE, 'DESIGN.md section 4, C02'),
    'C03': ("e1-conformance", E1T, "For every grammar of the K01, extended (recovery/validate) and K02 classes and every input up to the bound (which contains every one-token extension of every shorter accepted input): acceptance equals the model's whole-input match; the ParseResult invariants (no output => >=1 error, errors => into_result is Err, error-free => output, has_errors/errors()/output() consistent) hold for parse and check; p.lazy() accepts exactly when the model matches a prefix and returns that prefix's output. Exhaustive within the bounds stated in the evidence file; nothing is sampled.", NOTE, 'DESIGN.md section 4, C03'),
    'C04': ("e1-conformance", E1T, '(i) check() and parse() agree on acceptance, the complete error list and the final inspector state for every grammar of the K01, K02, K04 (recovery, validation, labels, slices), state and context classes on every input; (ii) every K04 grammar that contains an output-eliding combinator (ignore_then, then_ignore, ignored, to, to_slice, to_span, delimited_by, padded_by, bare repeated/separated_by) gives exactly the same outputs and errors as its value-building rewriting, on every input (differential, no model involved). Exhaustive within the bounds stated in the evidence file; nothing is sampled.', NOTE, 'DESIGN.md section 4, C04'),
    'C05': ("e1-conformance", E1T, "For every grammar of the extended class (validate emitters and recover_with at every node position, inside choices, repetitions, separators, look-ahead) and of a focused deep emission class, on every input, with a snapshot-checkpoint inspector: when the parse has an output, errors() equals the model's surviving-path emission list in order, every state observation equals the fold over the tokens before it, and the final state equals the whole input. Exhaustive within the bounds stated in the evidence file; nothing is sampled.", NOTE, 'DESIGN.md section 4, C05'),
    'C06': ("e1-conformance", E1T, "For every grammar of the extended, core, K01 and K02 classes (content comparison skipped for grammars containing not()) and every rejected input, with EmptyErr, Cheap, Simple and Rich: the last error's span equals the model's furthest-failure span (so the three span-carrying types agree), Rich's expected set and custom reason equal the merge at that position, found is the token at the span start, spans are well formed and inside the input, and a failed parse reports at least one error. Exhaustive within the bounds stated in the evidence file; nothing is sampled.", NOTE, 'DESIGN.md section 4, C06'),
    'C07': ("e1-conformance", E1T, "For every grammar of class K07 (K01 plus to_span, to_slice, map_with span/slice, validate spans, foldl_with/foldr_with) with every node wrapped in a span probe, on &str (ASCII and multi-byte), &[char], Stream and Input::map over tokens with gapped spans: every captured span and slice equals the model's extent for that node (hence nested, ordered, empty for empty matches and between the neighbouring tokens), is well formed, lies on character boundaries, and every slice is a sub-slice of the caller's buffer at the right offset. Exhaustive within the bounds stated in the evidence file; nothing is sampled.", NOTE, 'DESIGN.md section 4, C07'),
    'C08': ("e1-conformance", E1T, "For every grammar of the extended class with recover_with(via_parser | skip_until | skip_then_retry_until) at every node position and nesting, and of a bracket class with nested_delimiters, on every input: acceptance, output (fallback values are tagged), extents, the complete list of reported errors (recovered error = the then-pending primary error, exactly one per recovery) and the primary error on failure equal the model's. Exhaustive within the bounds stated in the evidence file; nothing is sampled.", NOTE, 'DESIGN.md section 4, C08'),
    'C10': ("e1-conformance", E1T, 'The same grammars (K01 and extended classes) on the same token sequences supplied as &str (ASCII, multi-byte), &[char], Stream, BoxedStream, Input::map (contiguous and gapped spans), &[u8], IoInput, with_context and map_span: acceptance, outputs, extents and error positions all equal the one reference model after the documented re-basing of spans. Exhaustive within the bounds stated in the evidence file; nothing is sampled.', NOTE, 'DESIGN.md section 4, C10'),
    'C15': ("e1-conformance", E1T, "For every grammar of the context class (with_ctx, then_with_ctx, ignore_with_ctx, map_ctx, just(..).configure(seq from ctx), repeated().configure(exactly from ctx), try_configure with erroring configs, inside sequences, choices, options and repetitions) with a context probe at every node, on every input: acceptance, outputs and every observed context equal the model's nearest-enclosing-provider semantics. Exhaustive within the bounds stated in the evidence file; nothing is sampled.", NOTE, 'DESIGN.md section 4, C15'),
    'C17': ("e1-conformance", E1T, "(i) Differential: every core-class grammar with <= 3 nodes x every non-empty subset of its nodes wrapped in labelled / labelled().as_context() / a span-preserving map_err gives the same acceptance, outputs, number of errors and error spans as the undecorated grammar on every input. (ii) Content: for every extended-class grammar the expected set (label in place of expectations at the first token, inner expectations kept further in), as_context contexts and map_err tags of the reported errors equal the model's. Exhaustive within the bounds stated in the evidence file; nothing is sampled.", NOTE, 'DESIGN.md section 4, C17'),
    'C18': ("e1-conformance", E1T, 'For every grammar of the state class (extended class plus select and with_state) with a state probe at every node, on &str, &[char] and Stream, with a snapshot-checkpoint inspector: every observation equals the fold over exactly the tokens before that position, the final state of a successful parse equals the fold over the whole input, with_state starts from a fresh copy on every invocation and leaves the outer state untouched. Exhaustive within the bounds stated in the evidence file; nothing is sampled.', NOTE, 'DESIGN.md section 4, C18'),
    'C20': ("e1-conformance", E1T, 'For every grammar of the extended and K01 classes with EmptyErr, Cheap, Simple and Rich on every input: parse and check return (no panic inside the library, caught per case; process deaths attributed per case), and a result without output carries at least one error. Exhaustive within the bounds stated in the evidence file; nothing is sampled.', NOTE, 'DESIGN.md section 4, C20'),
}

NOT_YET = {
}

def main():
    props = [json.loads(l) for l in open(os.path.join(ROOT, "properties.jsonl"))]
    checks = []
    na = []
    for p in props:
        pid = p["id"]
        if pid in CLAIMED:
            eng, tech, text, note, ref = CLAIMED[pid]
            checks.append({
                "property_id": pid,
                "quick_cmd": f"./check {pid} --tier quick",
                "thorough_cmd": f"./check {pid} --tier thorough",
                "evidence_file": f"/verif/evidence/{pid}.json",
                "replay_cmd_template": "./check --replay {path}",
                "engine": eng,
                "level_claimed": {"category": "model_checking", "text": text, "design_ref": ref},
                "level_note": note,
                "technique": tech,
            })
        else:
            na.append({"property_id": pid, "reason": NOT_YET.get(pid, "check not built yet in this session (work in progress; see DESIGN.md section 4 for the plan)")})
    engines = [
        {"name": "e1-conformance", "path": "harness/src/e1.rs", "serves_properties": sorted(k for k, v in CLAIMED.items() if v[0] == "e1-conformance"),
         "kind_free_text": "bounded exhaustive grammar x input enumeration; each case evaluated by the reference model (model/src/sem.rs) and replayed on the real parser (parse and check); worker subprocesses with crash attribution"},
    ]
    for name, path, txt in [
        ("e2-cursor-machine", "harness/src/e2.rs", "explicit-state BFS over the input-cursor machine; every edge replayed on the real InputRef"),
        ("e3-schedules", "harness/src/e3.rs", "shuttle DFS over all interleavings of threads sharing one parser, token pulls as scheduling points"),
        ("e4-histories", "harness/src/e4.rs", "all operation histories up to a length over handles x inputs, differential against a fresh parser"),
        ("pratt", "harness/src/pratt.rs", "all operator tables x all token strings against a textbook binding-power reference"),
        ("text", "harness/src/text.rs", "all strings over a small alphabet against independent recognisers"),
    ]:
        served = sorted(k for k, v in CLAIMED.items() if v[0] == name)
        if served:
            engines.append({"name": name, "path": path, "serves_properties": served, "kind_free_text": txt})
    m = {
        "version": 1,
        "setup_cmd": "cd /verif && CARGO_NET_OFFLINE=true cargo build --offline -p vcheck",
        "hooks": {
            "guard": "chumsky_verif",
            "enable": "no source hooks are needed: the harness observes through public traits (Input wrappers, Inspector, map_with probes); the cfg name is reserved and unused",
            "baseline_off_cmd": "cd /repo && cargo test --workspace --no-fail-fast --offline",
            "source_commits": [],
            "add_only": True,
        },
        "engines": engines,
        "checks": checks,
        "not_applicable": na,
        "notes": "Checks rebuild the harness (path dependency on /repo) before every run. known_findings.json lists known:/fixed: entries; see DESIGN.md section 6.",
    }
    json.dump(m, open(os.path.join(ROOT, "MANIFEST.json"), "w"), indent=1)
    print("MANIFEST.json:", len(checks), "checks,", len(na), "not claimed")

if __name__ == "__main__":
    main()
