//! Bounded enumerators: every grammar tree of a node alphabet ("class") with exactly n
//! nodes, in a canonical simplest-first order.  The same functions are used by the run-time
//! engines and by the harness's build script (static sub-enumeration), so the statically
//! typed set is a sub-enumeration by construction.

use crate::ast::*;

pub type U1 = Box<dyn Fn(Box<G>) -> Option<G> + Sync + Send>;
pub type U2 = Box<dyn Fn(Box<G>, Box<G>) -> Option<G> + Sync + Send>;
pub type U3 = Box<dyn Fn(Box<G>, Box<G>, Box<G>) -> Option<G> + Sync + Send>;

pub struct Class {
    pub name: &'static str,
    pub leaves: Vec<G>,
    pub unary: Vec<U1>,
    pub binary: Vec<U2>,
    pub ternary: Vec<U3>,
}

impl Class {
    /// All grammars with exactly `n` nodes, per size, sizes 1..=n.
    pub fn by_size(&self, n: usize) -> Vec<Vec<G>> {
        let mut sizes: Vec<Vec<G>> = vec![vec![]];
        for k in 1..=n {
            let mut out = vec![];
            if k == 1 {
                out.extend(self.leaves.iter().cloned());
            } else {
                for a in &sizes[k - 1] {
                    for u in &self.unary {
                        if let Some(g) = u(b(a.clone())) {
                            out.push(g);
                        }
                    }
                }
                for i in 1..k - 1 {
                    let j = k - 1 - i;
                    for a in &sizes[i] {
                        for c in &sizes[j] {
                            for f in &self.binary {
                                if let Some(g) = f(b(a.clone()), b(c.clone())) {
                                    out.push(g);
                                }
                            }
                        }
                    }
                }
                if k >= 4 {
                    for i in 1..k - 2 {
                        for j in 1..k - 1 - i {
                            let l = k - 1 - i - j;
                            if l < 1 {
                                continue;
                            }
                            for a in &sizes[i] {
                                for c in &sizes[j] {
                                    for d in &sizes[l] {
                                        for f in &self.ternary {
                                            if let Some(g) = f(b(a.clone()), b(c.clone()), b(d.clone())) {
                                                out.push(g);
                                            }
                                        }
                                    }
                                }
                            }
                        }
                    }
                }
            }
            sizes.push(out);
        }
        sizes
    }

    /// All grammars with 1..=n nodes, simplest first.
    pub fn upto(&self, n: usize) -> Vec<G> {
        self.by_size(n).into_iter().flatten().collect()
    }
}

fn u1(f: impl Fn(Box<G>) -> Option<G> + Sync + Send + 'static) -> U1 {
    Box::new(f)
}
fn u2(f: impl Fn(Box<G>, Box<G>) -> Option<G> + Sync + Send + 'static) -> U2 {
    Box::new(f)
}
fn u3(f: impl Fn(Box<G>, Box<G>, Box<G>) -> Option<G> + Sync + Send + 'static) -> U3 {
    Box::new(f)
}

pub fn nn(g: &G) -> bool {
    !nullable(g)
}

// ---- node groups --------------------------------------------------------------------------------

pub fn leaves_core() -> Vec<G> {
    vec![Just('a'), Just('b'), JustSeq('a', 'b'), Any, OneOf("ab"), NoneOf("a"), End, Empty]
}
pub fn leaves_full() -> Vec<G> {
    let mut v = leaves_core();
    v.extend([Select("ac"), Custom(1, true), Custom(1, false), Custom(2, true)]);
    v
}

pub fn unary_core() -> Vec<U1> {
    vec![
        u1(|a| Some(Map(a))),
        u1(|a| Some(To(a))),
        u1(|a| Some(Ignored(a))),
        u1(|a| Some(Filter(a))),
        u1(|a| Some(TryMap(a))),
        u1(|a| Some(OrNot(a))),
        u1(|a| Some(Rewind(a))),
    ]
}
pub fn unary_more() -> Vec<U1> {
    vec![u1(|a| Some(Not(a))), u1(|a| Some(TryMapWith(a))), u1(|a| Some(Boxed(a)))]
}
pub fn unary_slices() -> Vec<U1> {
    vec![u1(|a| Some(ToSlice(a))), u1(|a| Some(ToSpan(a)))]
}
pub fn unary_rep_basic() -> Vec<U1> {
    vec![
        u1(|a| if nn(&a) { Some(Rep(a, Bounds::STAR, Sink::Vec)) } else { None }),
        u1(|a| if nn(&a) { Some(Rep(a, Bounds::new(1, Some(2)), Sink::Vec)) } else { None }),
    ]
}
pub fn unary_errs() -> Vec<U1> {
    vec![
        u1(|a| Some(Validate(a, 1))),
        u1(|a| Some(Labelled(a, false))),
        u1(|a| Some(Labelled(a, true))),
        u1(|a| Some(MapErr(a))),
    ]
}
pub fn binary_core() -> Vec<U2> {
    vec![
        u2(|a, c| Some(Then(a, c))),
        u2(|a, c| Some(IgnoreThen(a, c))),
        u2(|a, c| Some(ThenIgnore(a, c))),
        u2(|a, c| Some(Or(a, c))),
        u2(|a, c| Some(AndIs(a, c))),
    ]
}
pub fn binary_more() -> Vec<U2> {
    vec![
        u2(|a, c| Some(PaddedBy(a, c))),
        u2(|a, c| Some(Group(Coll::Tuple, vec![*a, *c]))),
        u2(|a, c| Some(Group(Coll::Array, vec![*a, *c]))),
        u2(|a, c| Some(Choice(Coll::Tuple, vec![*a, *c]))),
        u2(|a, c| Some(Choice(Coll::Vec, vec![*a, *c]))),
        u2(|a, c| Some(Choice(Coll::Array, vec![*a, *c]))),
    ]
}
pub fn ternary_more() -> Vec<U3> {
    vec![
        u3(|a, o, c| Some(DelimitedBy(a, o, c))),
        u3(|a, o, c| Some(Choice(Coll::Tuple, vec![*a, *o, *c]))),
        u3(|a, o, c| Some(Choice(Coll::Vec, vec![*a, *o, *c]))),
        u3(|a, o, c| Some(Group(Coll::Tuple, vec![*a, *o, *c]))),
        u3(|a, o, c| Some(Group(Coll::Array, vec![*a, *o, *c]))),
    ]
}
pub fn binary_recovery() -> Vec<U2> {
    vec![
        u2(|a, f| Some(Recover(a, f))),
        u2(|a, u| Some(SkipUntil(a, b(Any), u))),
        u2(|a, u| Some(Retry(a, b(Any), u))),
    ]
}
pub const SEP_SETTINGS: [(u8, Option<u8>, bool, bool); 4] =
    [(0, None, false, false), (1, Some(2), true, false), (0, Some(2), false, true), (2, None, true, true)];
pub fn binary_sep_basic() -> Vec<U2> {
    SEP_SETTINGS
        .iter()
        .map(|&(mn, mx, l, t)| {
            u2(move |a, s| if nn(&a) && nn(&s) { Some(SepBy(a, s, Bounds::new(mn, mx), l, t, Sink::Vec)) } else { None })
        })
        .collect()
}

// ---- classes ----------------------------------------------------------------------------------------

/// K01: primitives, sequence, choice, option, look-ahead (C01's statement), plus basic repetition.
pub fn k01() -> Class {
    let mut unary = unary_core();
    unary.extend(unary_more());
    unary.extend(unary_rep_basic());
    let mut binary = binary_core();
    binary.extend(binary_more());
    Class { name: "K01", leaves: leaves_full(), unary, binary, ternary: ternary_more() }
}

/// The prototype's core class (kept small: 8 leaves, 9 unary, 5 binary) — used where a deep
/// node bound matters more than node variety.
pub fn k_core() -> Class {
    let mut unary = unary_core();
    unary.extend(unary_rep_basic());
    Class { name: "Kcore", leaves: leaves_core(), unary, binary: binary_core(), ternary: vec![] }
}

/// Extended class: core + emitters, recovery, labels, map_err, separators.
pub fn k_ext() -> Class {
    let mut unary = unary_core();
    unary.extend(unary_errs());
    unary.extend(unary_rep_basic());
    let mut binary = binary_core();
    binary.extend(binary_recovery());
    binary.extend(binary_sep_basic());
    Class { name: "Kext", leaves: leaves_core(), unary, binary, ternary: vec![] }
}

/// Inputs: all strings over `alphabet` of length 0..=l, shortest first.
pub fn inputs(alphabet: &[Tok], l: usize) -> Vec<Vec<Tok>> {
    let mut all = vec![vec![]];
    let mut cur: Vec<Vec<Tok>> = vec![vec![]];
    for _ in 0..l {
        let mut nx = vec![];
        for s in &cur {
            for c in alphabet {
                let mut t = s.clone();
                t.push(*c);
                nx.push(t);
            }
        }
        all.extend(nx.iter().cloned());
        cur = nx;
    }
    all
}
