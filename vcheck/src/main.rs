//! vcheck — one binary: orchestrator, worker and replay modes.
//!
//!   vcheck run <PROP> --tier quick|thorough      orchestrate worker subprocesses, write evidence
//!   vcheck worker <PROP> <tier> <shard> <n> <out> <marker> [skip]   (internal)
//!   vcheck replay <file>                          re-run one recorded violation
//!
//! Exit status of `run`/`replay`: 0 = property held on everything explored, 1 = violation
//! (a line `VIOLATION property=<id> replay=<path>` is printed), 2 = machinery error.

mod props;
use props::Unit;
use cvh::unit::*;
use cvm::sem::Sw;
use serde_json::{json, Value};
use std::collections::{BTreeMap, BTreeSet};
use std::io::Write;
use std::path::{Path, PathBuf};
use std::process::{Command, Stdio};
use std::time::{Duration, Instant};

fn verif_dir() -> PathBuf {
    std::env::var("VERIF_DIR").map(PathBuf::from).unwrap_or_else(|_| PathBuf::from("/verif"))
}

fn tier_of(s: &str) -> Tier {
    match s {
        "thorough" => Tier::Thorough,
        _ => Tier::Quick,
    }
}

#[derive(Clone, Debug)]
struct Finding {
    status: String,
    property: String,
    key: String,
    what: String,
}

fn load_findings() -> Vec<Finding> {
    let p = verif_dir().join("known_findings.json");
    let Ok(s) = std::fs::read_to_string(&p) else { return vec![] };
    let v: Value = match serde_json::from_str(&s) {
        Ok(v) => v,
        Err(e) => {
            eprintln!("known_findings.json does not parse: {e}");
            std::process::exit(2);
        }
    };
    v["findings"]
        .as_array()
        .map(|a| {
            a.iter()
                .map(|f| Finding {
                    status: f["status"].as_str().unwrap_or("").into(),
                    property: f["property"].as_str().unwrap_or("").into(),
                    key: f["key"].as_str().unwrap_or("").into(),
                    what: f["what"].as_str().unwrap_or("").into(),
                })
                .collect()
        })
        .unwrap_or_default()
}

fn known_keys(prop: &str) -> Vec<String> {
    load_findings().into_iter().filter(|f| f.status == "known" && f.property == prop).map(|f| f.key).collect()
}

fn quiet_panics() {
    // VERIF_LOUD=1 keeps the default panic hook (diagnosing a worker that dies of a harness panic)
    if std::env::var("VERIF_LOUD").is_ok() {
        return;
    }
    std::panic::set_hook(Box::new(|_| {}));
}

// ------------------------------------------------------------------------------------------------
// worker
// ------------------------------------------------------------------------------------------------

fn worker(args: &[String]) -> i32 {
    let prop = &args[0];
    let tier = tier_of(&args[1]);
    let shard: usize = args[2].parse().unwrap();
    let nshards: usize = args[3].parse().unwrap();
    let out = &args[4];
    let marker = args[5].clone();
    // skip list: "unitidx:gi,unitidx:gi"
    let mut skip: BTreeMap<usize, Vec<usize>> = BTreeMap::new();
    if let Some(s) = args.get(6) {
        for part in s.split(',').filter(|p| !p.is_empty()) {
            let (u, g) = part.split_once(':').unwrap();
            skip.entry(u.parse().unwrap()).or_default().push(g.parse().unwrap());
        }
    }
    quiet_panics();
    // address-space cap: runaway recursion / allocation in one case must kill this worker (and be attributed to
    // that case by the orchestrator), not the machine
    {
        let gb: u64 = std::env::var("VERIF_WORKER_MEM_GB").ok().and_then(|s| s.parse().ok()).unwrap_or(12);
        let lim = libc::rlimit { rlim_cur: gb << 30, rlim_max: gb << 30 };
        unsafe {
            libc::setrlimit(libc::RLIMIT_AS, &lim);
        }
    }
    let keys = known_keys(prop);
    let mut known = Sw::from_names(&keys.iter().map(|s| s.as_str()).collect::<Vec<_>>());
    if let Ok(list) = std::env::var("VERIF_CLASSIFY") {
        // diagnosis only: classify against the named as-implemented switches ("all" = every one);
        // never suppresses anything, only fills the explained_by field
        known = if list == "all" { Sw(Sw::NAMES.iter().fold(0, |a, (_, b)| a | b)) } else { Sw::from_names(&list.split(',').collect::<Vec<_>>()) };
    }
    let Some(units) = props::units(prop, tier) else {
        eprintln!("unknown property {prop}");
        return 2;
    };
    let mut results = vec![];
    // progress marker: one fixed-width record overwritten in place (a single pwrite per case, no
    // create/truncate), so that the orchestrator can attribute a process death to a case
    let mfile = std::fs::OpenOptions::new().create(true).write(true).truncate(true).open(&marker).expect("marker file");
    for (ui, u) in units.iter().enumerate() {
        let mf = &mfile;
        let progress = move |gi: usize| {
            use std::os::unix::fs::FileExt;
            let _ = mf.write_at(format!("{ui:>6}:{gi:<12}").as_bytes(), 0);
        };
        let cx = ShardCtx { shard, nshards, known, skip: skip.get(&ui).cloned().unwrap_or_default(), progress: &progress };
        let t0 = Instant::now();
        let mut r = u.run(&cx);
        r.counters.insert("worker_ms".into(), t0.elapsed().as_millis() as u64);
        results.push(r.to_json());
    }
    {
        use std::os::unix::fs::FileExt;
        let _ = mfile.write_at(format!("{:<19}", "done").as_bytes(), 0);
    }
    std::fs::write(out, serde_json::to_string(&json!({ "units": results })).unwrap()).unwrap();
    0
}

// ------------------------------------------------------------------------------------------------
// orchestrator
// ------------------------------------------------------------------------------------------------

struct WorkerRun {
    shard: usize,
    child: std::process::Child,
    out: PathBuf,
    marker: PathBuf,
    skip: Vec<String>,
    started: Instant,
    /// last marker content seen and when it last changed (stall detection)
    last_mark: String,
    last_change: Instant,
}

fn spawn_worker(prop: &str, tier: &str, shard: usize, n: usize, dir: &Path, skip: &[String]) -> WorkerRun {
    let out = dir.join(format!("w{shard}.json"));
    let marker = dir.join(format!("w{shard}.marker"));
    let _ = std::fs::remove_file(&out);
    let _ = std::fs::remove_file(&marker);
    let exe = std::env::current_exe().unwrap();
    let child = Command::new(exe)
        .args(["worker", prop, tier, &shard.to_string(), &n.to_string(), out.to_str().unwrap(), marker.to_str().unwrap(), &skip.join(",")])
        .stdout(Stdio::null())
        .stderr(Stdio::inherit())
        .spawn()
        .expect("spawn worker");
    WorkerRun { shard, child, out, marker, skip: skip.to_vec(), started: Instant::now(), last_mark: String::new(), last_change: Instant::now() }
}

fn hash_str(s: &str) -> String {
    use std::hash::{Hash, Hasher};
    let mut h = std::collections::hash_map::DefaultHasher::new();
    s.hash(&mut h);
    format!("{:012x}", h.finish() & 0xffff_ffff_ffff)
}

fn run(prop: &str, tier_s: &str) -> i32 {
    let t0 = Instant::now();
    let tier = tier_of(tier_s);
    let seed: i64 = std::env::var("VERIF_SEED").ok().and_then(|s| s.parse().ok()).unwrap_or(0);
    let jobs: usize = std::env::var("VERIF_JOBS").ok().and_then(|s| s.parse().ok()).unwrap_or(16);
    let Some(units) = props::units(prop, tier) else {
        eprintln!("unknown property {prop}");
        return 2;
    };
    let unit_names: Vec<String> = units.iter().map(|u| u.name().to_string()).collect();
    drop(units);
    // every worker builds the same grammar lists: do not start more workers than the machine has memory for
    let jobs = {
        let kb = |path: &str, key: &str| -> Option<u64> { std::fs::read_to_string(path).ok()?.lines().find(|l| l.starts_with(key))?.split_whitespace().nth(1)?.parse().ok() };
        match (kb("/proc/self/status", "VmHWM:"), kb("/proc/meminfo", "MemAvailable:")) {
            (Some(own), Some(avail)) if own > 0 => {
                // a worker peaks at roughly 1.6x the size of the lists (observations, result buffers) plus a constant
                let per_worker = own * 16 / 10 + 300_000;
                let fit = ((avail * 8 / 10) / per_worker).max(4) as usize;
                if fit < jobs {
                    eprintln!("note: {} workers instead of {} ({} MB of grammar lists per worker, {} MB available)", fit, jobs, own / 1024, avail / 1024);
                }
                jobs.min(fit)
            }
            _ => jobs,
        }
    };
    let vd = verif_dir();
    let scratch = vd.join("scratch").join(format!("{prop}-{tier_s}-{}", std::process::id()));
    std::fs::create_dir_all(&scratch).unwrap();
    std::fs::create_dir_all(vd.join("evidence")).unwrap();
    std::fs::create_dir_all(vd.join("replays")).unwrap();
    let timeout = Duration::from_secs(
        std::env::var("VERIF_WORKER_TIMEOUT").ok().and_then(|s| s.parse().ok()).unwrap_or(if tier == Tier::Quick { 600 } else { 6 * 3600 }),
    );

    // a case that makes no progress for this long is a hang (each case updates the progress marker)
    let stall = Duration::from_secs(std::env::var("VERIF_CASE_STALL").ok().and_then(|s| s.parse().ok()).unwrap_or(if tier == Tier::Quick { 45 } else { 600 }));
    // termination / no stack overflow is part of the statements of C11 (left recursion), C12 (depth) and C20
    let crash_is_violation = matches!(prop, "C11" | "C12" | "C20");

    // replay files of earlier runs of this property are stale once it is re-run
    if let Ok(rd) = std::fs::read_dir(vd.join("replays")) {
        for e in rd.flatten() {
            if e.file_name().to_string_lossy().starts_with(&format!("{prop}-")) {
                let _ = std::fs::remove_file(e.path());
            }
        }
    }
    let mut running: Vec<WorkerRun> = (0..jobs).map(|s| spawn_worker(prop, tier_s, s, jobs, &scratch, &[])).collect();
    let mut merged: Vec<UnitResult> = vec![];
    let mut crashes: Vec<Value> = vec![];
    let mut machinery_error: Option<String> = None;
    let mut abandoned_shards = 0u32;
    let mut done = 0;
    while done < jobs {
        std::thread::sleep(Duration::from_millis(20));
        let mut i = 0;
        while i < running.len() {
            let w = &mut running[i];
            let mut stalled = false;
            let status = match w.child.try_wait() {
                Ok(Some(st)) => Some(st),
                Ok(None) => {
                    let cur = std::fs::read_to_string(&w.marker).unwrap_or_default();
                    if cur != w.last_mark {
                        w.last_mark = cur;
                        w.last_change = Instant::now();
                    }
                    if w.started.elapsed() > timeout || w.last_change.elapsed() > stall {
                        stalled = w.last_change.elapsed() > stall;
                        let _ = w.child.kill();
                        let _ = w.child.wait();
                        None
                    } else {
                        i += 1;
                        continue;
                    }
                }
                Err(e) => {
                    machinery_error = Some(format!("wait: {e}"));
                    None
                }
            };
            let w = running.remove(i);
            let ok = status.map(|s| s.success()).unwrap_or(false) && w.out.exists();
            if ok {
                let v: Value = serde_json::from_str(&std::fs::read_to_string(&w.out).unwrap()).unwrap();
                for (ui, u) in v["units"].as_array().unwrap().iter().enumerate() {
                    let r = UnitResult::from_json(u);
                    if merged.len() <= ui {
                        merged.push(UnitResult { exhaustive: true, ..r.clone() });
                        let m = merged.last_mut().unwrap();
                        m.counters.clear();
                        m.cases = 0;
                        m.states = 0;
                        m.transitions = 0;
                        m.validated = 0;
                        m.mismatches.clear();
                        m.mismatch_count = 0;
                        m.samples.clear();
                        m.distinct_outcomes = 0;
                    }
                    merged[ui].merge(&r);
                }
                done += 1;
            } else {
                // the worker died (signal, abort, timeout): find the case it was on
                let mark: String = std::fs::read_to_string(&w.marker).unwrap_or_default().chars().filter(|c| !c.is_whitespace()).collect();
                let how = match status {
                    Some(s) => format!("{s}"),
                    None if stalled => format!("killed: no progress on this case for {:?} (hang)", stall),
                    None => format!("killed after {:?} (watchdog)", timeout),
                };
                let attributable = !(mark.is_empty() || mark == "done" || w.skip.contains(&mark));
                if attributable && w.skip.len() >= 5 && crash_is_violation {
                    // this shard keeps dying on one case after another: the deaths recorded so far are the verdict;
                    // the shard is abandoned (its remaining cases are not covered: stated in the evidence)
                    let (ui, gi) = mark.split_once(':').unwrap();
                    crashes.push(json!({
                        "engine": "crash", "unit": unit_names.get(ui.parse::<usize>().unwrap_or(0)).cloned().unwrap_or_default(),
                        "unit_index": ui, "case_index": gi, "how": how,
                        "categories": ["process_death"],
                        "detail": format!("worker process died ({how}) while running case index {gi} of unit {ui}; shard {} abandoned after {} deaths", w.shard, w.skip.len() + 1),
                        "explained_by": [],
                    }));
                    abandoned_shards += 1;
                    done += 1;
                } else if !attributable || w.skip.len() >= 8 {
                    machinery_error = Some(format!("worker {} died ({how}) at marker {mark:?}; not attributable to one case", w.shard));
                    done += 1;
                } else {
                    let (ui, gi) = mark.split_once(':').unwrap();
                    crashes.push(json!({
                        "engine": "crash", "unit": unit_names.get(ui.parse::<usize>().unwrap_or(0)).cloned().unwrap_or_default(),
                        "unit_index": ui, "case_index": gi, "how": how,
                        "categories": ["process_death"],
                        "detail": format!("worker process died ({how}) while running case index {gi} of unit {ui}"),
                        "explained_by": [],
                    }));
                    let mut skip = w.skip.clone();
                    skip.push(mark);
                    running.push(spawn_worker(prop, tier_s, w.shard, jobs, &scratch, &skip));
                }
            }
        }
    }
    let _ = std::fs::remove_dir_all(&scratch);
    if let Some(e) = machinery_error {
        eprintln!("MACHINERY ERROR: {e}");
        return 2;
    }

    // classify mismatches against the committed known-findings file
    let findings = load_findings();
    let known: Vec<&Finding> = findings.iter().filter(|f| f.status == "known" && f.property == prop).collect();
    let known_set: BTreeSet<&str> = known.iter().map(|f| f.key.as_str()).collect();
    let mut used_known: BTreeSet<String> = BTreeSet::new();
    let mut violations: Vec<Value> = vec![];
    let mut total_mismatch = 0u64;
    let mut explained = 0u64;
    for u in &merged {
        total_mismatch += u.mismatch_count;
        // units that keep only a few records per classified finding report the full count in a counter
        let counted: u64 = u.counters.iter().filter(|(k, _)| k.strip_prefix("explained:").map_or(false, |key| known_set.contains(key))).map(|(_, n)| *n).sum();
        explained += counted;
        for m in &u.mismatches {
            let keys: Vec<&str> = m["explained_by"].as_array().map(|a| a.iter().filter_map(|x| x.as_str()).collect()).unwrap_or_default();
            if !keys.is_empty() && keys.iter().all(|k| known_set.contains(k)) {
                if counted == 0 {
                    explained += 1;
                }
                for k in keys {
                    used_known.insert(k.to_string());
                }
            } else {
                violations.push(m.clone());
            }
        }
    }
    // crashes count as violations only where termination is in the statement; elsewhere they are noted
    if crash_is_violation {
        violations.extend(crashes.iter().cloned());
    }

    for f in &known {
        if used_known.contains(&f.key) {
            println!("KNOWN-FINDING: property={} {} {}", prop, f.key, f.what);
        }
    }
    // unexplained mismatches first (classification against switches is diagnostic unless listed as known)
    violations.sort_by_key(|v| v["explained_by"].as_array().map(|a| !a.is_empty()).unwrap_or(false));
    let mut replay_paths = vec![];
    let mut seen = BTreeSet::new();
    for v in &violations {
        let mut rec = v.clone();
        rec["property"] = json!(prop);
        rec["tier"] = json!(tier_s);
        let key = format!("{}|{}|{}|{}", v["unit"], v["grammar"], v["input"], v["case"]);
        if !seen.insert(key.clone()) {
            continue;
        }
        if replay_paths.len() >= 10 {
            break;
        }
        let path = vd.join("replays").join(format!("{prop}-{}.json", hash_str(&key)));
        std::fs::write(&path, serde_json::to_string_pretty(&rec).unwrap()).unwrap();
        println!("VIOLATION property={} replay={}", prop, path.display());
        replay_paths.push(path);
    }

    // evidence
    let states: u64 = merged.iter().map(|u| u.states).sum();
    let transitions: u64 = merged.iter().map(|u| u.transitions).sum();
    let validated: u64 = merged.iter().map(|u| u.validated).sum();
    let cases: u64 = merged.iter().map(|u| u.cases).sum();
    let distinct: u64 = merged.iter().map(|u| u.distinct_outcomes).sum();
    let mut samples: Vec<Value> = vec![];
    for u in &merged {
        for s in u.samples.iter().take(3) {
            samples.push(json!({ "unit": u.name, "case": s }));
        }
    }
    if samples.is_empty() {
        samples.push(json!("no case was explored"));
    }
    let n_viol = violations.len() as u64;
    let evidence = json!({
        "property_id": prop,
        "tier": tier_s,
        "seed": seed,
        "level": "model_checking",
        "coverage": {
            "states": states.max(0),
            "transitions": transitions,
            "traces_validated_against_impl": validated,
            "evaluations": cases,
            "distinct_nontrivial": distinct,
            "rule": "cases are enumerated exhaustively per unit (see units[].desc); distinct_nontrivial counts distinct model outcomes (output value with all probe extents, surviving emissions, primary error) per worker shard, summed; per-mechanism anti-vacuity counters are in units[].counters",
            "exhaustive": merged.iter().all(|u| u.exhaustive) && abandoned_shards == 0 && crashes.is_empty(),
            "shards_abandoned_after_repeated_deaths": abandoned_shards,
            "samples": samples,
            "units": merged.iter().map(|u| json!({
                "name": u.name, "desc": u.desc, "cases": u.cases, "model_states": u.states, "model_transitions": u.transitions,
                "validated_against_impl": u.validated, "distinct_model_outcomes": u.distinct_outcomes, "mismatches": u.mismatch_count,
                "counters": u.counters,
            })).collect::<Vec<_>>(),
            "mismatches_total": total_mismatch,
            "mismatches_explained_by_known_findings": explained,
            "process_deaths": crashes,
            "known_findings_applied": used_known.iter().collect::<Vec<_>>(),
        },
        "assumptions": [
            "the reference model (cvm::sem) is the specification; its pinned conventions are listed in DESIGN.md section 2",
            "user closures are the fixed total functions named in the grammar AST",
            "harness profile: opt-level 1 with debug assertions on",
        ],
        "wall_s": t0.elapsed().as_secs_f64(),
        "violations": n_viol,
    });
    let ev_path = vd.join("evidence").join(format!("{prop}.json"));
    let mut f = std::fs::File::create(&ev_path).unwrap();
    f.write_all(serde_json::to_string_pretty(&evidence).unwrap().as_bytes()).unwrap();

    println!(
        "{prop} [{tier_s}]: {} units, {} cases, {} model states, {} model transitions, {} traces validated, {} distinct outcomes, {} mismatches ({} explained by known findings), {:.1}s",
        merged.len(),
        cases,
        states,
        transitions,
        validated,
        distinct,
        total_mismatch,
        explained,
        t0.elapsed().as_secs_f64()
    );
    for u in &merged {
        println!("  unit {}: {} cases, {} mismatches; {}", u.name, u.cases, u.mismatch_count, u.desc);
        for (k, v) in u.counters.iter().filter(|(k, _)| k.starts_with("mismatch")) {
            println!("      {k} = {v}");
        }
    }
    if !crashes.is_empty() && !crash_is_violation {
        println!("note: {} worker process death(s) attributed to single cases and skipped (totality is C20's to report)", crashes.len());
    }
    if violations.is_empty() {
        0
    } else {
        1
    }
}

fn replay(path: &str) -> i32 {
    let v: Value = match std::fs::read_to_string(path).map_err(|e| e.to_string()).and_then(|s| serde_json::from_str(&s).map_err(|e| e.to_string())) {
        Ok(v) => v,
        Err(e) => {
            eprintln!("cannot read replay file: {e}");
            return 2;
        }
    };
    quiet_panics();
    let prop = v["property"].as_str().unwrap_or("?").to_string();
    let res = match v["engine"].as_str().unwrap_or("") {
        "pratt" => eng_pratt::replay(&v),
        "text" => eng_text::replay(&v),
        "text-totality" => Err("re-run ./check C20 (the text-totality unit is a few seconds)".into()),
        "nested" => eng_nested::replay(&v),
        "drops" => eng_drops::replay(&v),
        "hist" | "threads" => eng_hist::replay(&v),
        "graphemes" | "iterinput" | "cursor" | "seqs" | "pulls" | "collects" => eng_inputs::replay(&v),
        "leftrec" | "sharedmemo" | "ctxmemo" | "rec-erased" | "rec" | "rec-life" | "rec-depth" | "rec-define" => eng_rec::replay(&v),
        _ => cvh::replay::replay(&v),
    };
    match res {
        Ok(None) => {
            println!("replay: case no longer mismatches");
            0
        }
        Ok(Some(detail)) => {
            println!("{detail}");
            println!("VIOLATION property={} replay={}", prop, path);
            1
        }
        Err(e) => {
            eprintln!("replay failed: {e}");
            2
        }
    }
}

fn main() {
    register_runners(vec![
        cvh_i0::run, cvh_i1::run, cvh_i2::run, cvh_i3::run, cvh_i4::run, cvh_i5::run, cvh_i6::run, cvh_i7::run, cvh_i8::run, cvh_i9::run, cvh_i10::run, cvh_i11::run,
    ]);
    {
        let mut v: Vec<StaticCase> = vec![];
        for t in [cvh_static_0::CASES, cvh_static_1::CASES, cvh_static_2::CASES, cvh_static_3::CASES, cvh_static_4::CASES, cvh_static_5::CASES] {
            v.extend(t.iter().copied());
        }
        register_static(v);
    }
    let args: Vec<String> = std::env::args().skip(1).collect();
    let code = match args.first().map(|s| s.as_str()) {
        Some("worker") => worker(&args[1..]),
        Some("run") => {
            let prop = args.get(1).cloned().unwrap_or_default();
            let mut tier = std::env::var("VERIF_TIER").unwrap_or_else(|_| "quick".into());
            let mut i = 2;
            while i < args.len() {
                if args[i] == "--tier" {
                    tier = args.get(i + 1).cloned().unwrap_or(tier);
                    i += 1;
                }
                i += 1;
            }
            run(&prop, &tier)
        }
        Some("replay") => replay(args.get(1).map(|s| s.as_str()).unwrap_or("")),
        Some("sizes") => {
            // diagnostic: number of grammars each unit of a property holds in memory
            let prop = args.get(1).cloned().unwrap_or_default();
            let tier = tier_of(args.get(2).map(|s| s.as_str()).unwrap_or("quick"));
            for u in props::units(&prop, tier).unwrap_or_default() {
                match &u {
                    Unit::E1(e) => println!("{:40} {:>10} grammars, {:>12} nodes", e.name, e.grammars.len(), e.grammars.iter().map(|g| g.size()).sum::<usize>()),
                    Unit::Custom { name, .. } => println!("{:40} custom", name),
                }
            }
            0
        }
        Some("list") => {
            for p in props::ALL_PROPS {
                println!("{p}");
            }
            0
        }
        _ => {
            eprintln!("usage: vcheck run <PROP> [--tier quick|thorough] | vcheck replay <file> | vcheck list");
            2
        }
    };
    let _ = Unit::name;
    std::process::exit(code);
}
