//! Bounded enumerators: every grammar tree of a node alphabet ("class") with exactly n
//! nodes, in a canonical simplest-first order.  The same functions are used by the run-time
//! engines and by the harness's build script (static sub-enumeration), so the statically
//! typed set is a sub-enumeration by construction.

use crate::ast::*;

pub type U1 = Box<dyn Fn(Box<G>) -> Option<G> + Sync + Send>;
pub type U2 = Box<dyn Fn(Box<G>, Box<G>) -> Option<G> + Sync + Send>;
pub type U3 = Box<dyn Fn(Box<G>, Box<G>, Box<G>) -> Option<G> + Sync + Send>;

pub struct Class {
    pub name: &'static str,
    pub leaves: Vec<G>,
    pub unary: Vec<U1>,
    pub binary: Vec<U2>,
    pub ternary: Vec<U3>,
}

impl Class {
    /// All grammars with exactly `n` nodes, per size, sizes 1..=n.
    pub fn by_size(&self, n: usize) -> Vec<Vec<G>> {
        let mut sizes: Vec<Vec<G>> = vec![vec![]];
        for k in 1..=n {
            let mut out = vec![];
            if k == 1 {
                out.extend(self.leaves.iter().cloned());
            } else {
                for a in &sizes[k - 1] {
                    for u in &self.unary {
                        if let Some(g) = u(b(a.clone())) {
                            out.push(g);
                        }
                    }
                }
                for i in 1..k - 1 {
                    let j = k - 1 - i;
                    for a in &sizes[i] {
                        for c in &sizes[j] {
                            for f in &self.binary {
                                if let Some(g) = f(b(a.clone()), b(c.clone())) {
                                    out.push(g);
                                }
                            }
                        }
                    }
                }
                if k >= 4 {
                    for i in 1..k - 2 {
                        for j in 1..k - 1 - i {
                            let l = k - 1 - i - j;
                            if l < 1 {
                                continue;
                            }
                            for a in &sizes[i] {
                                for c in &sizes[j] {
                                    for d in &sizes[l] {
                                        for f in &self.ternary {
                                            if let Some(g) = f(b(a.clone()), b(c.clone()), b(d.clone())) {
                                                out.push(g);
                                            }
                                        }
                                    }
                                }
                            }
                        }
                    }
                }
            }
            sizes.push(out);
        }
        sizes
    }

    /// All grammars with 1..=n nodes, simplest first.
    pub fn upto(&self, n: usize) -> Vec<G> {
        self.by_size(n).into_iter().flatten().collect()
    }
}

fn u1(f: impl Fn(Box<G>) -> Option<G> + Sync + Send + 'static) -> U1 {
    Box::new(f)
}
fn u2(f: impl Fn(Box<G>, Box<G>) -> Option<G> + Sync + Send + 'static) -> U2 {
    Box::new(f)
}
fn u3(f: impl Fn(Box<G>, Box<G>, Box<G>) -> Option<G> + Sync + Send + 'static) -> U3 {
    Box::new(f)
}

pub fn nn(g: &G) -> bool {
    !nullable(g)
}

// ---- node groups --------------------------------------------------------------------------------

pub fn leaves_core() -> Vec<G> {
    vec![Just('a'), Just('b'), JustSeq('a', 'b'), Any, OneOf("ab"), NoneOf("a"), End, Empty]
}
pub fn leaves_full() -> Vec<G> {
    let mut v = leaves_core();
    v.extend([Select("ac"), Custom(1, true), Custom(1, false), Custom(2, true)]);
    v
}

pub fn unary_core() -> Vec<U1> {
    vec![
        u1(|a| Some(Map(a))),
        u1(|a| Some(To(a))),
        u1(|a| Some(Ignored(a))),
        u1(|a| Some(Filter(a))),
        u1(|a| Some(TryMap(a))),
        u1(|a| Some(OrNot(a))),
        u1(|a| Some(Rewind(a))),
    ]
}
pub fn unary_more() -> Vec<U1> {
    vec![u1(|a| Some(Not(a))), u1(|a| Some(TryMapWith(a))), u1(|a| Some(Boxed(a)))]
}
pub fn unary_slices() -> Vec<U1> {
    vec![u1(|a| Some(ToSlice(a))), u1(|a| Some(ToSpan(a)))]
}
pub fn unary_rep_basic() -> Vec<U1> {
    vec![
        u1(|a| if nn(&a) { Some(Rep(a, Bounds::STAR, Sink::Vec)) } else { None }),
        u1(|a| if nn(&a) { Some(Rep(a, Bounds::new(1, Some(2)), Sink::Vec)) } else { None }),
    ]
}
pub fn unary_errs() -> Vec<U1> {
    vec![
        u1(|a| Some(Validate(a, 1))),
        u1(|a| Some(Labelled(a, false))),
        u1(|a| Some(Labelled(a, true))),
        u1(|a| Some(MapErr(a))),
    ]
}
pub fn binary_core() -> Vec<U2> {
    vec![
        u2(|a, c| Some(Then(a, c))),
        u2(|a, c| Some(IgnoreThen(a, c))),
        u2(|a, c| Some(ThenIgnore(a, c))),
        u2(|a, c| Some(Or(a, c))),
        u2(|a, c| Some(AndIs(a, c))),
    ]
}
pub fn binary_more() -> Vec<U2> {
    vec![
        u2(|a, c| Some(PaddedBy(a, c))),
        u2(|a, c| Some(Group(Coll::Tuple, vec![*a, *c]))),
        u2(|a, c| Some(Group(Coll::Array, vec![*a, *c]))),
        u2(|a, c| Some(Choice(Coll::Tuple, vec![*a, *c]))),
        u2(|a, c| Some(Choice(Coll::Vec, vec![*a, *c]))),
        u2(|a, c| Some(Choice(Coll::Array, vec![*a, *c]))),
    ]
}
pub fn ternary_more() -> Vec<U3> {
    vec![
        u3(|a, o, c| Some(DelimitedBy(a, o, c))),
        u3(|a, o, c| Some(Choice(Coll::Tuple, vec![*a, *o, *c]))),
        u3(|a, o, c| Some(Choice(Coll::Vec, vec![*a, *o, *c]))),
        u3(|a, o, c| Some(Group(Coll::Tuple, vec![*a, *o, *c]))),
        u3(|a, o, c| Some(Group(Coll::Array, vec![*a, *o, *c]))),
    ]
}
pub fn binary_recovery() -> Vec<U2> {
    vec![
        u2(|a, f| Some(Recover(a, f))),
        u2(|a, u| Some(SkipUntil(a, b(Any), u))),
        u2(|a, u| Some(Retry(a, b(Any), u))),
    ]
}
pub const SEP_SETTINGS: [(u8, Option<u8>, bool, bool); 4] =
    [(0, None, false, false), (1, Some(2), true, false), (0, Some(2), false, true), (2, None, true, true)];
pub fn binary_sep_basic() -> Vec<U2> {
    SEP_SETTINGS
        .iter()
        .map(|&(mn, mx, l, t)| {
            u2(move |a, s| if nn(&a) && nn(&s) { Some(SepBy(a, s, Bounds::new(mn, mx), l, t, Sink::Vec)) } else { None })
        })
        .collect()
}

// ---- classes ----------------------------------------------------------------------------------------

/// K01: primitives, sequence, choice, option, look-ahead (C01's statement), plus basic repetition.
pub fn k01() -> Class {
    let mut unary = unary_core();
    unary.extend(unary_more());
    unary.extend(unary_rep_basic());
    let mut binary = binary_core();
    binary.extend(binary_more());
    Class { name: "K01", leaves: leaves_full(), unary, binary, ternary: ternary_more() }
}

/// The prototype's core class (kept small: 8 leaves, 9 unary, 5 binary) — used where a deep
/// node bound matters more than node variety.
pub fn k_core() -> Class {
    let mut unary = unary_core();
    unary.extend(unary_rep_basic());
    Class { name: "Kcore", leaves: leaves_core(), unary, binary: binary_core(), ternary: vec![] }
}

/// Extended class: core + emitters, recovery, labels, map_err, separators.
pub fn k_ext() -> Class {
    let mut unary = unary_core();
    unary.extend(unary_errs());
    unary.extend(unary_rep_basic());
    let mut binary = binary_core();
    binary.extend(binary_recovery());
    binary.extend(binary_sep_basic());
    Class { name: "Kext", leaves: leaves_core(), unary, binary, ternary: vec![] }
}

/// Inputs: all strings over `alphabet` of length 0..=l, shortest first.
pub fn inputs(alphabet: &[Tok], l: usize) -> Vec<Vec<Tok>> {
    let mut all = vec![vec![]];
    let mut cur: Vec<Vec<Tok>> = vec![vec![]];
    for _ in 0..l {
        let mut nx = vec![];
        for s in &cur {
            for c in alphabet {
                let mut t = s.clone();
                t.push(*c);
                nx.push(t);
            }
        }
        all.extend(nx.iter().cloned());
        cur = nx;
    }
    all
}

// ---- C02: repetition / separator templates ------------------------------------------------------

/// All bounds settings with min <= max over 0..=4 (max may be absent), the `exactly(n)` spelling,
/// and (if `cfg`) the same bounds supplied through `configure()`.  Contradictory bounds
/// (at_least > at_most) are not generated: the statement gives them no meaning.
pub fn k02_bounds(cfg: bool, hi: u8) -> Vec<Bounds> {
    let mut v = vec![];
    for min in 0..=hi {
        v.push(Bounds::new(min, None));
        for max in min..=hi {
            v.push(Bounds::new(min, Some(max)));
        }
    }
    for n in 0..=hi {
        v.push(Bounds { min: n, max: Some(n), exactly: true, cfg: false });
    }
    if cfg {
        let plain: Vec<Bounds> = v.iter().filter(|b| !b.exactly).cloned().collect();
        for b in plain {
            v.push(Bounds { cfg: true, ..b });
        }
    }
    v
}

pub fn k02_sinks() -> Vec<Sink> {
    vec![
        Sink::Vec,
        Sink::Str,
        Sink::Count,
        Sink::Bare,
        Sink::Enumerate,
        Sink::Exactly(0),
        Sink::Exactly(1),
        Sink::Exactly(2),
        Sink::Exactly(3),
        Sink::Foldl(b(Empty)),
        Sink::Foldr(b(Empty)),
        Sink::FoldlWith(b(OrNot(b(Just('c'))))),
        Sink::FoldrWith(b(OrNot(b(Just('c'))))),
    ]
}

pub fn k02_items(thorough: bool) -> Vec<G> {
    let mut v = vec![
        Just('a'),
        JustSeq('a', 'b'),
        OneOf("ab"),
        Filter(b(Any)),
        Custom(2, true),
        Then(b(Just('a')), b(OrNot(b(Just('b'))))),
        Validate(b(OneOf("ab")), 1),
    ];
    if thorough {
        let k = k01();
        for g in k.upto(2) {
            if nn(&g) && !v.contains(&g) {
                v.push(g);
            }
        }
        v.extend([TryMap(b(JustSeq('a', 'b'))), Or(b(JustSeq('a', 'b')), b(Just('a'))), Then(b(Any), b(Not(b(Just(','))))), AndIs(b(Any), b(NoneOf(",")))]);
    }
    v
}

pub fn k02_seps(thorough: bool) -> Vec<G> {
    let mut v = vec![Just(','), JustSeq(',', ','), Validate(b(Just(',')), 2)];
    if thorough {
        v.extend([OneOf(",b"), Then(b(Just(',')), b(OrNot(b(Just(','))))), Filter(b(Any))]);
    }
    v
}

/// the unconsumed remainder becomes part of the output
pub fn with_rest(g: G) -> G {
    Then(b(g), b(ToSlice(b(Rep(b(Any), Bounds::STAR, Sink::Bare)))))
}

/// items that may match without consuming: legal only under `collect_exactly` (which is bounded by N and has
/// no progress assertion)
pub fn k02_nullable_items() -> Vec<G> {
    vec![OrNot(b(Just('a'))), Empty, Rewind(b(Just('a'))), Map(b(OrNot(b(JustSeq('a', 'b')))))]
}

pub fn k02_rep(thorough: bool) -> Vec<G> {
    let mut out = vec![];
    for it in k02_items(thorough) {
        for bd in k02_bounds(true, 4) {
            for s in k02_sinks() {
                out.push(with_rest(Rep(b(it.clone()), bd, s)));
            }
        }
    }
    for it in k02_nullable_items() {
        for bd in k02_bounds(false, 4) {
            for n in 0..=3 {
                out.push(with_rest(Rep(b(it.clone()), bd, Sink::Exactly(n))));
            }
        }
    }
    // the same sinks fed by `into_iter()` of an already collected list
    for it in k02_items(thorough) {
        for bd in [Bounds::STAR, Bounds::new(1, Some(2)), Bounds::new(0, Some(3))] {
            for s in k02_sinks() {
                if s != Sink::Str {
                    out.push(with_rest(IntoIter(b(Rep(b(it.clone()), bd, Sink::Vec)), s)));
                }
            }
        }
    }
    out
}

pub fn k02_sep(thorough: bool) -> Vec<G> {
    let mut out = vec![];
    for it in k02_items(thorough) {
        for sp in k02_seps(thorough) {
            for bd in k02_bounds(false, 4) {
                for (l, t) in [(false, false), (true, false), (false, true), (true, true)] {
                    for s in k02_sinks() {
                        out.push(with_rest(SepBy(b(it.clone()), b(sp.clone()), bd, l, t, s)));
                    }
                }
            }
        }
    }
    for it in k02_nullable_items() {
        for bd in k02_bounds(false, 3) {
            for (l, t) in [(false, false), (true, true)] {
                for n in 1..=3 {
                    out.push(with_rest(SepBy(b(it.clone()), b(Just(',')), bd, l, t, Sink::Exactly(n))));
                }
            }
        }
    }
    out
}

/// the same grammar reading its tokens by reference: any -> any_ref, select -> select_ref (borrowing inputs)
pub fn by_ref(g: &G) -> G {
    match g {
        Any => AnyRef,
        Select(s) => SelectRef(s),
        o => map_children(o, &mut |c| by_ref(c)),
    }
}
/// every grammar of the list that reads some token through any / select, rewritten to read it by reference
pub fn by_ref_all(gs: &[G]) -> Vec<G> {
    gs.iter().filter(|g| g.any_node(&|x| matches!(x, Any | Select(_)))).map(by_ref).collect()
}

/// links of an iterable chain: every kind of iterable parser, with items that emit / consume two tokens
pub fn k02_parts(thorough: bool) -> Vec<Part> {
    let mut v = vec![];
    let items: Vec<G> = if thorough { vec![Just('a'), Just('b'), JustSeq('a', 'b'), Validate(b(OneOf("ab")), 1)] } else { vec![Just('a'), Just('b'), Validate(b(JustSeq('a', 'b')), 1)] };
    for it in &items {
        for bd in [Bounds::STAR, Bounds::new(1, None), Bounds::new(0, Some(1)), Bounds::new(1, Some(2)), Bounds::new(2, Some(2))] {
            v.push(Part::Rep(b(it.clone()), bd));
        }
        v.push(Part::Opt(b(it.clone())));
    }
    for (l, t) in [(false, false), (true, false), (false, true), (true, true)] {
        for bd in [Bounds::STAR, Bounds::new(1, Some(2))] {
            v.push(Part::Sep(b(Just('a')), b(Just(',')), bd, l, t));
        }
    }
    v.push(Part::Sep(b(Validate(b(Just('b')), 1)), b(Validate(b(Just(',')), 2)), Bounds::STAR, false, true));
    // into_iter(): zero, one or several items (the items of an into_iter() link consume nothing themselves)
    v.push(Part::Iter(b(OrNot(b(Just('a'))))));
    v.push(Part::Iter(b(Just('b'))));
    v.push(Part::Iter(b(Rep(b(Just('a')), Bounds::STAR, Sink::Vec))));
    v
}

pub fn k02_chain_sinks() -> Vec<Sink> {
    vec![Sink::Vec, Sink::Count, Sink::Bare, Sink::Exactly(1), Sink::Exactly(2), Sink::Foldl(b(Empty)), Sink::Foldr(b(OrNot(b(Just('c')))))]
}

/// `IterParser for Then` / `IterParser for OrNot`: every single or_not link and every pair of links x sinks,
/// each followed by a rest capture
pub fn k02_chain(thorough: bool) -> Vec<G> {
    let ps = k02_parts(thorough);
    let mut out = vec![];
    for p in &ps {
        if matches!(p, Part::Opt(_)) {
            for s in k02_chain_sinks() {
                out.push(with_rest(IterChain(vec![p.clone()], s)));
            }
        }
    }
    for p in &ps {
        for q in &ps {
            for s in k02_chain_sinks() {
                out.push(with_rest(IterChain(vec![p.clone(), q.clone()], s)));
            }
        }
    }
    out
}

/// K01 over a smaller leaf set that contains `Select("bc!")`: the selector written with the `select!` / `select_ref!`
/// macros, as overlapping arms told apart by their guards only (a token is taken by the first arm whose guard holds)
pub fn k01_select_macro() -> Class {
    let mut c = k01();
    c.name = "K01select";
    c.leaves = vec![Just('a'), Any, Select("bc!"), Select("ab"), End];
    c
}

/// `a.or_not()` driven through its `IterParser` impl (collect / count / unit / collect_exactly / folds), for
/// every K01 grammar `a` with <= n nodes, and every ordered pair of a small list of options chained with
/// `IterParser::then`; each followed by a rest capture. "On failure an option consumes nothing" is the same
/// PEG rule whichever interface drives the option.
pub fn k01_opt_iter(n: usize) -> Vec<G> {
    let mut out = vec![];
    for a in k01().upto(n) {
        for s in k02_chain_sinks() {
            out.push(with_rest(IterChain(vec![Part::Opt(b(a.clone()))], s)));
        }
    }
    let small: Vec<G> = vec![Just('a'), JustSeq('a', 'b'), Then(b(Just('a')), b(Just('b'))), Filter(b(Any)), Then(b(Any), b(Not(b(Just('c'))))), Or(b(JustSeq('a', 'c')), b(Just('b')))];
    for x in &small {
        for y in &small {
            for s in k02_chain_sinks() {
                out.push(with_rest(IterChain(vec![Part::Opt(b(x.clone())), Part::Opt(b(y.clone()))], s)));
            }
        }
        for s in k02_chain_sinks() {
            out.push(with_rest(IterChain(vec![Part::Opt(b(x.clone())), Part::Rep(b(Just('c')), Bounds::STAR)], s.clone())));
            out.push(with_rest(IterChain(vec![Part::Rep(b(Just('c')), Bounds::STAR), Part::Opt(b(x.clone()))], s)));
        }
    }
    out
}

// ---- decorations (C11, C17): wrap every node of a subset --------------------------------------------

/// Rebuild `g` wrapping the nodes whose pre-order index is in `mask` with `wrap`.
pub fn decorate(g: &G, mask: u32, wrap: &dyn Fn(G) -> G) -> G {
    fn go(g: &G, idx: &mut u32, mask: u32, wrap: &dyn Fn(G) -> G) -> G {
        let me = *idx;
        *idx += 1;
        let mut r = map_children(g, &mut |c| go(c, idx, mask, wrap));
        if mask & (1 << me) != 0 {
            r = wrap(r);
        }
        r
    }
    let mut i = 0;
    go(g, &mut i, mask, wrap)
}

/// Rebuild a node with its children transformed in evaluation order.
pub fn map_children(g: &G, f: &mut dyn FnMut(&G) -> G) -> G {
    let mut bx = |x: &G| b(f(x));
    fn sink(s: &Sink, f: &mut dyn FnMut(&G) -> Box<G>) -> Sink {
        match s {
            Sink::Foldl(i) => Sink::Foldl(f(i)),
            Sink::Foldr(i) => Sink::Foldr(f(i)),
            Sink::FoldlWith(i) => Sink::FoldlWith(f(i)),
            Sink::FoldrWith(i) => Sink::FoldrWith(f(i)),
            o => o.clone(),
        }
    }
    match g {
        Just(_) | JustSeq(..) | Any | OneOf(_) | NoneOf(_) | Select(_) | End | Empty | Custom(..) | EmptyChoice | JustCtx | RecRef(_) | AnyRef | SelectRef(_) | Var => g.clone(),
        Map(a) => Map(bx(a)),
        To(a) => To(bx(a)),
        Ignored(a) => Ignored(bx(a)),
        Filter(a) => Filter(bx(a)),
        TryMap(a) => TryMap(bx(a)),
        TryMapWith(a) => TryMapWith(bx(a)),
        StGuard(a) => StGuard(bx(a)),
        OrNot(a) => OrNot(bx(a)),
        Not(a) => Not(bx(a)),
        Rewind(a) => Rewind(bx(a)),
        Boxed(a) => Boxed(bx(a)),
        ToSlice(a) => ToSlice(bx(a)),
        ToSpan(a) => ToSpan(bx(a)),
        Validate(a, i) => Validate(bx(a), *i),
        Labelled(a, c) => Labelled(bx(a), *c),
        MapErr(a) => MapErr(bx(a)),
        Memo(a) => Memo(bx(a)),
        Padded(a) => Padded(bx(a)),
        WithState(a) => WithState(bx(a)),
        Snd(a) => Snd(bx(a)),
        Fst(a) => Fst(bx(a)),
        MapUnit(a) => MapUnit(bx(a)),
        MapZ(a) => MapZ(bx(a)),
        SliceWith(a) => SliceWith(bx(a)),
        SpanWith(a) => SpanWith(bx(a)),
        TryMapSpan(a) => TryMapSpan(bx(a)),
        Mid(a) => Mid(bx(a)),
        Lazy(a) => Lazy(bx(a)),
        Ext(a, o) => Ext(bx(a), *o),
        CustomNest(a) => CustomNest(bx(a)),
        Rec(a, d) => Rec(bx(a), *d),
        NestedDelims(a) => NestedDelims(bx(a)),
        WithCtx(c, a) => WithCtx(*c, bx(a)),
        MapCtx(a) => MapCtx(bx(a)),
        RepCtx(a) => RepCtx(bx(a)),
        RepCtxMax(a) => RepCtxMax(bx(a)),
        TryRepCtx(a) => TryRepCtx(bx(a)),
        RepCtxPre(a, x, k) => RepCtxPre(bx(a), *x, *k),
        CtxBare(k, a) => CtxBare(*k, bx(a)),
        IntoIter(a, s) => {
            let a = bx(a);
            IntoIter(a, sink(s, &mut bx))
        }
        CtxIter(k, a, c, s) => {
            let a = bx(a);
            let c = bx(c);
            CtxIter(*k, a, c, sink(s, &mut bx))
        }
        IterChain(ps, s) => {
            let ps: Vec<Part> = ps.iter().map(|p| p.map(&mut |g| *bx(g))).collect();
            IterChain(ps, sink(s, &mut bx))
        }
        Rep(a, bd, s) => {
            let a = bx(a);
            Rep(a, *bd, sink(s, &mut bx))
        }
        Then(a, c) => {
            let a = bx(a);
            Then(a, bx(c))
        }
        Let(a, c) => {
            let a = bx(a);
            Let(a, bx(c))
        }
        IgnoreThen(a, c) => {
            let a = bx(a);
            IgnoreThen(a, bx(c))
        }
        ThenIgnore(a, c) => {
            let a = bx(a);
            ThenIgnore(a, bx(c))
        }
        Or(a, c) => {
            let a = bx(a);
            Or(a, bx(c))
        }
        AndIs(a, c) => {
            let a = bx(a);
            AndIs(a, bx(c))
        }
        PaddedBy(a, c) => {
            let a = bx(a);
            PaddedBy(a, bx(c))
        }
        Recover(a, c) => {
            let a = bx(a);
            Recover(a, bx(c))
        }
        ThenWithCtx(a, c) => {
            let a = bx(a);
            ThenWithCtx(a, bx(c))
        }
        IgnoreWithCtx(a, c) => {
            let a = bx(a);
            IgnoreWithCtx(a, bx(c))
        }
        DelimitedBy(a, o, c) => {
            let a = bx(a);
            let o = bx(o);
            DelimitedBy(a, o, bx(c))
        }
        SkipUntil(a, o, c) => {
            let a = bx(a);
            let o = bx(o);
            SkipUntil(a, o, bx(c))
        }
        Retry(a, o, c) => {
            let a = bx(a);
            let o = bx(o);
            Retry(a, o, bx(c))
        }
        Choice(k, v) => Choice(*k, v.iter().map(|x| f(x)).collect()),
        Group(k, v) => Group(*k, v.iter().map(|x| f(x)).collect()),
        SepBy(a, s, bd, l, t, k) => {
            let a = bx(a);
            let s = bx(s);
            SepBy(a, s, *bd, *l, *t, sink(k, &mut bx))
        }
    }
}

/// (undecorated, decorated) pairs: every grammar x every non-empty subset of its nodes x every wrapper
pub fn decorated_pairs(gs: &[G], wraps: &[&dyn Fn(G) -> G]) -> Vec<G> {
    let mut out = vec![];
    for g in gs {
        let n = g.size().min(20) as u32;
        // every non-empty subset for small grammars; for larger ones every single node, every
        // adjacent (parent, first child) pair of pre-order neighbours, and the full set
        let masks: Vec<u32> = if n <= 4 {
            (1..(1u32 << n)).collect()
        } else {
            let mut m: Vec<u32> = (0..n).map(|i| 1 << i).collect();
            m.extend((0..n - 1).map(|i| 3 << i));
            m.push((1u32 << n) - 1);
            m
        };
        for mask in masks {
            for w in wraps {
                out.push(g.clone());
                out.push(decorate(g, mask, *w));
            }
        }
    }
    out
}

// ---- C04: explicit (value-building) formulations ------------------------------------------------------

/// Rewrite every output-eliding combinator into its value-building formulation.
pub fn explicit(g: &G) -> G {
    let r = map_children(g, &mut |c| explicit(c));
    match r {
        IgnoreThen(a, c) => Snd(b(Then(a, c))),
        ThenIgnore(a, c) => Fst(b(Then(a, c))),
        Ignored(a) => MapUnit(a),
        To(a) => MapZ(a),
        ToSlice(a) => SliceWith(a),
        ToSpan(a) => SpanWith(a),
        DelimitedBy(a, o, c) => Mid(b(Group(Coll::Tuple, vec![*o, *a, *c]))),
        PaddedBy(a, p) => Mid(b(Group(Coll::Tuple, vec![(*p).clone(), *a, *p]))),
        Rep(a, bd, Sink::Bare) => MapUnit(b(Rep(a, bd, Sink::Vec))),
        SepBy(a, s, bd, l, t, Sink::Bare) => MapUnit(b(SepBy(a, s, bd, l, t, Sink::Vec))),
        // a hand-written check path vs the default one (= parse and discard)
        Ext(a, true) => Ext(a, false),
        CustomNest(a) => Ext(a, false),
        o => o,
    }
}

pub fn has_elision(g: &G) -> bool {
    g.any_node(&|x| {
        matches!(x, IgnoreThen(..) | ThenIgnore(..) | Ignored(_) | To(_) | ToSlice(_) | ToSpan(_) | DelimitedBy(..) | PaddedBy(..) | Rep(_, _, Sink::Bare) | SepBy(_, _, _, _, _, Sink::Bare) | Ext(_, true) | CustomNest(_))
    })
}

// ---- further classes -------------------------------------------------------------------------------------

/// K07: K01 plus every span/slice capture form.
pub fn k07(slices: bool) -> Class {
    let mut c = k01();
    c.name = if slices { "K07" } else { "K07-noslice" };
    c.unary.push(u1(|a| Some(ToSpan(a))));
    c.unary.push(u1(|a| Some(SpanWith(a))));
    c.unary.push(u1(|a| Some(TryMapSpan(a))));
    c.unary.push(u1(|a| Some(Validate(a, 1))));
    c.unary.push(u1(|a| if nn(&a) { Some(Rep(a, Bounds::STAR, Sink::FoldlWith(b(Empty)))) } else { None }));
    c.unary.push(u1(|a| if nn(&a) { Some(Rep(a, Bounds::STAR, Sink::FoldrWith(b(Empty)))) } else { None }));
    if slices {
        c.unary.push(u1(|a| Some(ToSlice(a))));
        c.unary.push(u1(|a| Some(SliceWith(a))));
    }
    c
}

/// context class (C15)
pub fn k_ctx() -> Class {
    let mut leaves = leaves_core();
    leaves.push(JustCtx);
    let mut unary = unary_core();
    unary.extend(unary_rep_basic());
    unary.push(u1(|a| Some(MapCtx(a))));
    unary.push(u1(|a| Some(WithCtx('b', a))));
    unary.push(u1(|a| if nn(&a) { Some(RepCtx(a)) } else { None }));
    unary.push(u1(|a| if nn(&a) { Some(TryRepCtx(a)) } else { None }));
    unary.push(u1(|a| if nn(&a) { Some(RepCtxMax(a)) } else { None }));
    let mut binary = binary_core();
    binary.push(u2(|a, c| Some(ThenWithCtx(a, c))));
    binary.push(u2(|a, c| Some(IgnoreWithCtx(a, c))));
    Class { name: "Kctx", leaves, unary, binary, ternary: vec![] }
}

/// state class (C18): extended class plus with_state
pub fn k_state() -> Class {
    let mut c = k_ext();
    c.name = "Kstate";
    c.leaves.push(Select("ac"));
    // a user parser that advances with peek() + skip(): the skipped token must reach the inspector too
    c.leaves.push(Custom(11, true));
    c.unary.push(u1(|a| Some(WithState(a))));
    c
}

/// state-guard class (C18): user closures whose VERDICT depends on the inspector state they are shown, placed inside
/// look-aheads, options, choices and recoveries - a state that is wrong only while a sub-parser runs (and put right
/// afterwards) changes what is accepted
pub fn k_stguard() -> Class {
    let leaves = vec![Just('a'), Any, Select("ab")];
    let unary = vec![u1(|a| Some(StGuard(a))), u1(|a| Some(OrNot(a))), u1(|a| Some(Rewind(a))), u1(|a| Some(Not(a))), u1(|a| if nn(&a) { Some(Rep(a, Bounds::STAR, Sink::Vec)) } else { None })];
    let binary = vec![u2(|a, c| Some(Then(a, c))), u2(|a, c| Some(Or(a, c))), u2(|a, c| Some(AndIs(a, c))), u2(|a, c| Some(Recover(a, c)))];
    Class { name: "Kstguard", leaves, unary, binary, ternary: vec![] }
}

/// padding class (C18, C05): `.padded()` is the one user of `InputRef::skip_while`, a third way of advancing the
/// cursor (besides next() and skip()); over an alphabet with a space
pub fn k_padded() -> Class {
    let leaves = vec![Just('a'), Any, Select("a "), JustSeq('a', ' '), End];
    let unary = vec![u1(|a| Some(Padded(a))), u1(|a| Some(OrNot(a))), u1(|a| Some(Rewind(a))), u1(|a| Some(Validate(a, 1))), u1(|a| if nn(&a) { Some(Rep(a, Bounds::STAR, Sink::Vec)) } else { None })];
    let binary = vec![u2(|a, c| Some(Then(a, c))), u2(|a, c| Some(Or(a, c))), u2(|a, c| Some(AndIs(a, c))), u2(|a, c| Some(Recover(a, c)))];
    Class { name: "Kpadded", leaves, unary, binary, ternary: vec![] }
}

/// memoization around recovery (C11): a recovery that fires inside a memoized parser files "the error the parse
/// would have reported", which includes a failure pending from an earlier alternative
pub fn k_memo_rec() -> Class {
    let leaves = vec![Just('a'), Just('b'), JustSeq('a', 'b'), Any];
    let unary = vec![u1(|a| Some(OrNot(a)))];
    let binary = vec![u2(|a, c| Some(Then(a, c))), u2(|a, c| Some(Or(a, c))), u2(|a, f| Some(Recover(a, f)))];
    Class { name: "Kmemorec", leaves, unary, binary, ternary: vec![] }
}

/// sharing class (C11): bodies that use ONE parser value (`var`) several times - at the same position after
/// backtracking, under map_err, inside a recovery strategy - so that a memoized definition is really looked up
/// in its table (two separate memoized() nodes never share an entry).  `defs` x bodies with >= 2 uses.
pub fn k_share_bodies() -> Class {
    let leaves = vec![Var, Just('a'), JustSeq('a', 'a')];
    let unary = vec![u1(|a| Some(MapErr(a))), u1(|a| Some(OrNot(a)))];
    let binary = vec![u2(|a, c| Some(Then(a, c))), u2(|a, c| Some(Or(a, c))), u2(|a, c| Some(Recover(a, c)))];
    Class { name: "Kshare", leaves, unary, binary, ternary: vec![] }
}
pub fn k_share_defs() -> Vec<G> {
    vec![JustSeq('a', 'b'), Then(b(Just('a')), b(OrNot(b(Just('b'))))), Or(b(JustSeq('a', 'b')), b(Just('b'))), TryMap(b(Any)), Validate(b(Just('a')), 1)]
}
/// (plain, memoized-definition) pairs
pub fn k_share_pairs(n: usize) -> Vec<G> {
    let mut out = vec![];
    for body in k_share_bodies().upto(n) {
        let mut uses = 0;
        let mut stack = vec![&body];
        while let Some(g) = stack.pop() {
            if matches!(g, Var) {
                uses += 1;
            }
            stack.extend(g.children());
        }
        if uses < 2 {
            continue;
        }
        for d in k_share_defs() {
            out.push(Let(b(d.clone()), b(body.clone())));
            out.push(Let(b(Memo(b(d))), b(body.clone())));
        }
    }
    out
}

/// recovery class over a bracket alphabet (nested_delimiters)
pub fn k_nd() -> Class {
    let leaves = vec![Just('a'), Just('('), Just(')'), Any, End, JustSeq('(', 'a')];
    let unary = vec![u1(|a| Some(NestedDelims(a))), u1(|a| Some(OrNot(a))), u1(|a| if nn(&a) { Some(Rep(a, Bounds::STAR, Sink::Vec)) } else { None }), u1(|a| Some(Validate(a, 1)))];
    let binary = vec![u2(|a, c| Some(Then(a, c))), u2(|a, c| Some(Or(a, c)))];
    Class { name: "Knd", leaves, unary, binary, ternary: vec![] }
}

/// Focused emission/backtracking class (C05): few node kinds, so that deep trees are affordable.
/// Every backtracking construct, zero-width and consuming emitters, recovery.
pub fn k_emit() -> Class {
    let leaves = vec![Just('a'), Just('b'), Empty, Any];
    let unary = vec![
        u1(|a| Some(Validate(a, 1))),
        u1(|a| Some(OrNot(a))),
        u1(|a| Some(Not(a))),
        u1(|a| Some(Rewind(a))),
        u1(|a| if nn(&a) { Some(Rep(a, Bounds::STAR, Sink::Vec)) } else { None }),
        u1(|a| if nn(&a) { Some(Rep(a, Bounds::STAR, Sink::Bare)) } else { None }),
    ];
    let binary = vec![
        u2(|a, c| Some(Then(a, c))),
        u2(|a, c| Some(Or(a, c))),
        u2(|a, c| Some(AndIs(a, c))),
        u2(|a, f| Some(Recover(a, f))),
        u2(|a, s| if nn(&a) && nn(&s) { Some(SepBy(a, s, Bounds::STAR, false, false, Sink::Vec)) } else { None }),
    ];
    Class { name: "Kemit", leaves, unary, binary, ternary: vec![] }
}

/// Focused label class (C17): few node kinds, deep trees.
pub fn k_label() -> Class {
    let leaves = vec![Just('a'), JustSeq('a', 'b'), Any];
    let unary = vec![u1(|a| Some(Labelled(a, false))), u1(|a| Some(Labelled(a, true))), u1(|a| Some(MapErr(a))), u1(|a| Some(OrNot(a)))];
    let binary = vec![u2(|a, c| Some(Then(a, c))), u2(|a, c| Some(Or(a, c)))];
    Class { name: "Klabel", leaves, unary, binary, ternary: vec![] }
}

/// Focused totality class (C20): wrappers that unwrap "the error a failed parser must have left"
/// (map_err, labelled, memoized, recover_with in its three strategies) around each other and
/// around every kind of failing site.
pub fn k_tot() -> Class {
    let leaves = vec![Just('a'), Any, End, Custom(1, false), EmptyChoice];
    let unary = vec![
        u1(|a| Some(MapErr(a))),
        u1(|a| Some(Labelled(a, true))),
        u1(|a| Some(Memo(a))),
        u1(|a| Some(TryMap(a))),
        u1(|a| Some(Filter(a))),
        u1(|a| Some(OrNot(a))),
        u1(|a| if nn(&a) { Some(Rep(a, Bounds::new(0, Some(1)), Sink::Exactly(2))) } else { None }),
        u1(|a| Some(Ext(a, true))),
        u1(|a| Some(CustomNest(a))),
    ];
    let binary = vec![
        u2(|a, f| Some(Recover(a, f))),
        u2(|a, u| Some(SkipUntil(a, b(Any), u))),
        u2(|a, u| Some(Retry(a, b(Any), u))),
        u2(|a, c| Some(Then(a, c))),
        u2(|a, c| Some(Or(a, c))),
    ];
    Class { name: "Ktot", leaves, unary, binary, ternary: vec![] }
}

/// Focused memoization class (C11): multi-token leaves (so that a memoized parser can fail after
/// consuming), repetition and choice (so that the same memoized parser is re-entered at other
/// positions), few node kinds so that every subset of nodes of 5-node trees can be memoized.
pub fn k_memo() -> Class {
    let leaves = vec![Just('a'), JustSeq('a', 'b'), Any];
    let unary = vec![u1(|a| Some(OrNot(a))), u1(|a| if nn(&a) { Some(Rep(a, Bounds::STAR, Sink::Vec)) } else { None }), u1(|a| Some(TryMap(a)))];
    let binary = vec![u2(|a, c| Some(Then(a, c))), u2(|a, c| Some(Or(a, c)))];
    Class { name: "Kmemo", leaves, unary, binary, ternary: vec![] }
}

/// Recursive grammars with guarded self-references (C12): every body of a small class with
/// `rec_ref0` as an extra leaf that mentions it and is guarded, wrapped in `rec(..)` (built with
/// recursive()) and `rec_declare(..)` (declare/define); plus two-level nestings referring to the outer
/// binder (mutual recursion).
pub fn k_rec_bodies() -> Class {
    let leaves = vec![Just('a'), Just('b'), End, Empty, RecRef(0)];
    let unary = vec![u1(|a| Some(OrNot(a))), u1(|a| Some(Map(a))), u1(|a| if nn(&a) { Some(Rep(a, Bounds::STAR, Sink::Vec)) } else { None }), u1(|a| Some(Validate(a, 1)))];
    let binary = vec![u2(|a, c| Some(Then(a, c))), u2(|a, c| Some(Or(a, c))), u2(|a, c| Some(IgnoreThen(a, c)))];
    Class { name: "Krec", leaves, unary, binary, ternary: vec![] }
}
pub fn k_rec(n: usize) -> Vec<G> {
    let mut out = vec![];
    let bodies: Vec<G> = k_rec_bodies().upto(n).into_iter().filter(|g| g.any_node(&|x| matches!(x, RecRef(_)))).collect();
    for body in &bodies {
        for declare in [false, true] {
            let g = Rec(b(body.clone()), declare);
            if well_formed_rec(&g, 0) {
                out.push(g);
            }
        }
    }
    // mutual recursion: A = a B | b ; B = (b A | a) style, as nested binders: the inner body may refer to
    // the outer rule through rec_ref1
    let small: Vec<G> = k_rec_bodies().upto(3).into_iter().filter(|g| g.any_node(&|x| matches!(x, RecRef(_)))).collect();
    for outer in &small {
        for inner in &small {
            // replace the outer body's rec_ref0 by an inner Rec whose own rec_ref0 stays and one occurrence refers outwards
            let inner_out = map_refs(inner, 1);
            for (d1, d2) in [(false, false), (true, true), (false, true)] {
                let nested = subst_ref(outer, &Rec(b(Or(b(inner_out.clone()), b(Then(b(Just('b')), b(RecRef(0)))))), d2));
                let g = Rec(b(nested), d1);
                if well_formed_rec(&g, 0) && g.size() <= 12 {
                    out.push(g);
                }
            }
        }
    }
    out
}
/// rewrite every `rec_ref0` to `rec_ref<k>`
fn map_refs(g: &G, k: u8) -> G {
    match g {
        RecRef(0) => RecRef(k),
        _ => map_children(g, &mut |c| map_refs(c, k)),
    }
}
/// replace every `rec_ref0` by `by`
fn subst_ref(g: &G, by: &G) -> G {
    match g {
        RecRef(0) => by.clone(),
        _ => map_children(g, &mut |c| subst_ref(c, by)),
    }
}

/// context x recursion (C15 "inside recursion"): guarded recursive bodies over context providers/consumers
pub fn k_ctx_rec(n: usize) -> Vec<G> {
    let leaves = vec![Just('a'), JustCtx, RecRef(0), Any];
    let unary = vec![u1(|a| Some(MapCtx(a))), u1(|a| Some(WithCtx('b', a))), u1(|a| Some(OrNot(a))), u1(|a| if nn(&a) { Some(RepCtxMax(a)) } else { None })];
    let binary = vec![u2(|a, c| Some(Then(a, c))), u2(|a, c| Some(Or(a, c))), u2(|a, c| Some(ThenWithCtx(a, c))), u2(|a, c| Some(IgnoreWithCtx(a, c)))];
    let c = Class { name: "KctxRec", leaves, unary, binary, ternary: vec![] };
    c.upto(n)
        .into_iter()
        .filter(|g| g.any_node(&|x| matches!(x, RecRef(_))) && g.any_node(&|x| matches!(x, JustCtx | RepCtxMax(_))))
        .map(|body| Rec(b(body), false))
        .filter(|g| well_formed_rec(g, 0))
        .collect()
}

/// hand-built context-sensitive families (C15): length-prefixed, delimiter-echo, nested / recursive
pub fn ctx_families() -> Vec<G> {
    let any = || b(Any);
    let lp = |item: G| ThenWithCtx(any(), b(RepCtx(b(item))));
    let echo_body = || Rep(b(AndIs(any(), b(Not(b(JustCtx))))), Bounds::STAR, Sink::Vec);
    let echo = |open: G| IgnoreWithCtx(b(open), b(Then(b(echo_body()), b(JustCtx))));
    let nested_echo = {
        let inner = OrNot(b(echo(Just('b'))));
        IgnoreWithCtx(any(), b(Then(b(inner), b(Then(b(echo_body()), b(JustCtx))))))
    };
    let rec_block = {
        let item = Or(b(AndIs(b(RecRef(0)), b(Not(b(JustCtx))))), b(Just('c')));
        let body = IgnoreWithCtx(b(OneOf("ab")), b(Then(b(Rep(b(item), Bounds::STAR, Sink::Vec)), b(JustCtx))));
        Rec(b(body), false)
    };
    let indent_like = {
        let deeper = Then(b(Just('b')), b(MapCtx(b(RecRef(0)))));
        let body = Then(b(RepCtx(b(Just('a')))), b(OrNot(b(deeper))));
        WithCtx('a', b(Rec(b(body), true)))
    };
    vec![
        // length-prefixed: a token says how many items follow (a->1, b->2, c->0)
        lp(Any),
        lp(Just('a')),
        // ... nested: each item is itself length-prefixed
        lp(lp(Just('a'))),
        Then(b(lp(Any)), b(lp(Any))),
        Rep(b(lp(Just('a'))), Bounds::STAR, Sink::Vec),
        Or(b(Then(b(lp(Just('a'))), b(Just('c')))), b(lp(Any))),
        // range taken from the context
        ThenWithCtx(any(), b(Then(b(RepCtxMax(b(Just('a')))), b(Rep(any(), Bounds::STAR, Sink::Count))))),
        // try_configure: context 'c' is a configuration error
        ThenWithCtx(any(), b(TryRepCtx(b(Just('a'))))),
        Or(b(ThenWithCtx(any(), b(TryRepCtx(b(Just('a')))))), b(Rep(any(), Bounds::STAR, Sink::Count))),
        // delimiter-echo (raw-string like): the opening token must be echoed to close
        IgnoreWithCtx(any(), b(Then(b(echo_body()), b(JustCtx)))),
        Rep(b(IgnoreWithCtx(any(), b(Then(b(echo_body()), b(JustCtx))))), Bounds::STAR, Sink::Vec),
        // ... nested providers: the inner one shadows the outer one, which is visible again afterwards
        nested_echo,
        // recursion under a context: block = open-token, then (block | non-open tokens)*, then the same token
        rec_block,
        // indentation-like: the context counts the expected repetitions at each level, map_ctx goes one level deeper
        indent_like,
        // a context observed after backtracking out of a provider
        Or(b(ThenWithCtx(b(Just('a')), b(Then(b(JustCtx), b(Just('c')))))), b(WithCtx('b', b(Then(b(Any), b(Rep(b(JustCtx), Bounds::STAR, Sink::Count))))))),
    ]
}

/// C15: a configuration from context applied on top of bounds already set on the parser:
/// `item.repeated().<static bounds>.configure(exactly | at_most | at_least from ctx)`, under every context
/// value (with_ctx) and with the count taken from the input (then_with_ctx), followed by a rest capture.
pub fn ctx_pre_templates() -> Vec<G> {
    let mut out = vec![];
    for it in [Just('a'), Any, JustSeq('a', 'b'), Filter(b(Any))] {
        for bd in k02_bounds(false, 3) {
            for kind in 0..3u8 {
                let core = || with_rest(RepCtxPre(b(it.clone()), bd, kind));
                for c in ['a', 'b', 'c', 'd'] {
                    out.push(WithCtx(c, b(core())));
                }
                out.push(ThenWithCtx(b(Any), b(core())));
            }
        }
    }
    out
}

/// a repetition configured from the context and used without collecting (as a unit parser, or counted), under
/// every context provider, followed by a rest capture; also inside to_slice / ignored / a sequence
pub fn ctx_bare_templates() -> Vec<G> {
    let mut out = vec![];
    for it in [Just('a'), Any, JustSeq('a', 'b'), Filter(b(Any)), Validate(b(OneOf("ab")), 1)] {
        for kind in 0..6u8 {
            let cores: Vec<G> = vec![
                with_rest(CtxBare(kind, b(it.clone()))),
                with_rest(ToSlice(b(CtxBare(kind, b(it.clone()))))),
                with_rest(Ignored(b(CtxBare(kind, b(it.clone()))))),
                with_rest(Then(b(CtxBare(kind, b(it.clone()))), b(OrNot(b(Just('c')))))),
            ];
            for core in cores {
                for c in ['a', 'b', 'c', 'd'] {
                    out.push(WithCtx(c, b(core.clone())));
                }
                out.push(ThenWithCtx(b(Any), b(core.clone())));
                out.push(IgnoreWithCtx(b(Any), b(core)));
            }
        }
    }
    out
}

/// context providers used as iterable parsers (`a.ignore_with_ctx(item.repeated()..)` / `a.then_with_ctx(..)` driven by
/// collect / count / folds / collect_exactly, or as a unit parser), each followed by a rest capture: the provider runs
/// once, when the iteration starts (after the head of a left fold), and every item sees its output as context
pub fn ctx_iter_templates() -> Vec<G> {
    let mut out = vec![];
    let sinks = vec![
        Sink::Vec,
        Sink::Count,
        Sink::Bare,
        Sink::Exactly(2),
        Sink::Foldl(b(Any)),
        Sink::Foldl(b(OneOf("ab"))),
        Sink::Foldr(b(Any)),
        Sink::Foldr(b(OrNot(b(Just('c'))))),
        Sink::FoldlWith(b(Any)),
    ];
    for prov in [Any, OneOf("ab"), Just('b'), Then(b(Any), b(Any))] {
        for it in [JustCtx, Any, Just('a'), Or(b(JustCtx), b(Just('c'))), Validate(b(JustCtx), 1)] {
            for kind in 0..6u8 {
                for s in &sinks {
                    out.push(with_rest(CtxIter(kind, b(prov.clone()), b(it.clone()), s.clone())));
                }
            }
        }
    }
    // nested in an outer context: the inner provider's output shadows it for the items only
    for kind in [1u8, 4] {
        for s in [Sink::Vec, Sink::Foldl(b(JustCtx)), Sink::Foldr(b(JustCtx))] {
            out.push(WithCtx('a', b(with_rest(CtxIter(kind, b(Any), b(JustCtx), s.clone())))));
            out.push(WithCtx('b', b(with_rest(CtxIter(kind, b(JustCtx), b(JustCtx), s)))));
        }
    }
    out
}

/// counts far beyond anything that can be stored (`usize::MAX / 4`, context token 'e'), given statically and read
/// from the input as a length prefix: every way of configuring a repetition from the context x every way of
/// consuming it. Such a repetition simply runs out of items (exactly / at_least) or is unbounded (at_most).
pub fn ctx_huge_templates() -> Vec<G> {
    let mut cores: Vec<G> = vec![];
    for it in [Just('a'), Any, Validate(b(OneOf("ab")), 1)] {
        cores.push(with_rest(RepCtx(b(it.clone()))));
        cores.push(with_rest(RepCtxMax(b(it.clone()))));
        cores.push(with_rest(TryRepCtx(b(it.clone()))));
        for kind in 0..6u8 {
            cores.push(with_rest(CtxBare(kind, b(it.clone()))));
        }
        for bd in [Bounds::STAR, Bounds::new(1, Some(2)), Bounds::new(2, None)] {
            for kind in 0..3u8 {
                cores.push(with_rest(RepCtxPre(b(it.clone()), bd, kind)));
            }
        }
    }
    let mut out = vec![];
    for core in &cores {
        out.push(WithCtx('e', b(core.clone())));
        out.push(ThenWithCtx(b(Any), b(core.clone())));
        out.push(IgnoreWithCtx(b(OneOf("ae")), b(core.clone())));
    }
    for it in [JustCtx, Any, Just('a')] {
        for kind in 0..6u8 {
            for s in [Sink::Vec, Sink::Count, Sink::Bare, Sink::Exactly(2), Sink::Foldl(b(Empty)), Sink::Foldr(b(OrNot(b(Just('c')))))] {
                out.push(with_rest(CtxIter(kind, b(Any), b(it.clone()), s.clone())));
                out.push(with_rest(IterChain(vec![Part::Opt(b(Just('a'))), Part::Ctx(kind, b(Any), b(it.clone()))], s)));
            }
        }
    }
    out
}

/// a context provider as ONE LINK of an iterable chain (`first.then(a.ignore_with_ctx(item.repeated()..))` and the
/// other way round): the provider is parsed once, when its link starts - not before the chain starts, not again
/// before every item - and its items see its output as context; each followed by a rest capture
pub fn ctx_chain_templates() -> Vec<G> {
    let mut out = vec![];
    let sinks = vec![Sink::Vec, Sink::Count, Sink::Bare, Sink::Exactly(2), Sink::Foldl(b(Empty)), Sink::Foldr(b(OrNot(b(Just('c'))))), Sink::FoldlWith(b(Any))];
    let others = vec![
        Part::Rep(b(Just('c')), Bounds::STAR),
        Part::Rep(b(Just('a')), Bounds::new(0, Some(1))),
        Part::Opt(b(Just('c'))),
        Part::Iter(b(OrNot(b(Just('c'))))),
        Part::Sep(b(Just('c')), b(Just('a')), Bounds::STAR, false, false),
    ];
    for other in &others {
        for prov in [Any, OneOf("ab")] {
            for it in [JustCtx, Any, Or(b(JustCtx), b(Just('c')))] {
                for kind in 0..6u8 {
                    for s in &sinks {
                        let link = Part::Ctx(kind, b(prov.clone()), b(it.clone()));
                        out.push(with_rest(IterChain(vec![other.clone(), link.clone()], s.clone())));
                        out.push(with_rest(IterChain(vec![link, other.clone()], s.clone())));
                    }
                }
            }
        }
    }
    out
}

/// Focused output-elision class (C04): emitters under every eliding combinator, deep enough for an
/// iteration that emits and then fails.
pub fn k04_deep() -> Class {
    let leaves = vec![Just('a'), Just('b'), Any];
    let unary = vec![
        u1(|a| Some(Validate(a, 1))),
        u1(|a| if nn(&a) { Some(Rep(a, Bounds::STAR, Sink::Bare)) } else { None }),
        u1(|a| if nn(&a) { Some(Rep(a, Bounds::new(1, Some(2)), Sink::Bare)) } else { None }),
        u1(|a| Some(Ignored(a))),
        u1(|a| Some(ToSlice(a))),
        u1(|a| Some(OrNot(a))),
    ];
    let binary = vec![
        u2(|a, c| Some(Then(a, c))),
        u2(|a, c| Some(IgnoreThen(a, c))),
        u2(|a, c| Some(ThenIgnore(a, c))),
        u2(|a, c| Some(Or(a, c))),
        u2(|a, p| Some(PaddedBy(a, p))),
        u2(|a, s| if nn(&a) && nn(&s) { Some(SepBy(a, s, Bounds::STAR, false, true, Sink::Bare)) } else { None }),
    ];
    // delimited_by elides both delimiters: an emitting body inside an unclosed pair
    Class { name: "K04deep", leaves, unary, binary, ternary: vec![u3(|a, o, c| Some(DelimitedBy(a, o, c)))] }
}

/// Focused memoization-under-lookahead class (C11): a memoized parser that succeeds leaving an error
/// behind its end position matters only when the input is given back (rewind, and_is).
pub fn k_memo_look() -> Class {
    let leaves = vec![Just('a'), Just('b')];
    let unary = vec![u1(|a| Some(OrNot(a))), u1(|a| Some(Rewind(a)))];
    let binary = vec![u2(|a, c| Some(Then(a, c))), u2(|a, c| Some(AndIs(a, c))), u2(|a, c| Some(IgnoreThen(a, c)))];
    Class { name: "KmemoLook", leaves, unary, binary, ternary: vec![] }
}

/// Focused context-label class (C17): as_context stacks across success, merge and replacement.
pub fn k_labelctx() -> Class {
    let leaves = vec![Just('a'), JustSeq('a', 'b'), Any];
    let unary = vec![u1(|a| Some(Labelled(a, true))), u1(|a| Some(OrNot(a)))];
    let binary = vec![u2(|a, c| Some(Then(a, c))), u2(|a, c| Some(Or(a, c)))];
    Class { name: "Klabelctx", leaves, unary, binary, ternary: vec![] }
}

/// Focused class (C17): secondary errors (validate, recovery) raised INSIDE a labelled parser, with nothing
/// above that backtracks - so that they are reported whether the labelled parser goes on to succeed or to fail,
/// and must carry the as_context frame either way.
pub fn k_labelemit() -> Class {
    let leaves = vec![Just('a'), Just('b'), Any];
    let unary = vec![u1(|a| Some(Validate(a, 1))), u1(|a| Some(Labelled(a, true))), u1(|a| Some(Labelled(a, false))), u1(|a| Some(MapErr(a)))];
    let binary = vec![u2(|a, c| Some(Then(a, c))), u2(|a, f| Some(Recover(a, f)))];
    Class { name: "Klabelemit", leaves, unary, binary, ternary: vec![] }
}

/// Focused map_err class (C17): a map_err'd parser that *succeeds* leaving an error behind (or_not), next to
/// errors with multi-token spans (try_map over a sequence) and context stacks (as_context) pending at the
/// same position - so that the direction in which map_err merges errors back is observable.
pub fn k_maperr() -> Class {
    // two-token leaves: a try_map over one is a 2-node error with a multi-token span, a labelled one fails "further in"
    let leaves = vec![Just('a'), Just('b'), Any, JustSeq('a', 'b'), JustSeq('b', 'a')];
    let unary = vec![u1(|a| Some(MapErr(a))), u1(|a| Some(TryMap(a))), u1(|a| Some(OrNot(a))), u1(|a| Some(Labelled(a, true)))];
    let binary = vec![u2(|a, c| Some(Then(a, c))), u2(|a, c| Some(Or(a, c)))];
    Class { name: "Kmaperr", leaves, unary, binary, ternary: vec![] }
}

/// Focused pending-error class (C06): the combinators that set the pending primary error aside and put it back
/// (try_map, try_map_with, filter) over optional parts, sequences and choices - deep enough for an error to be
/// pending before such a combinator starts AND another one to be left behind by its own successful parser.
pub fn k_alt() -> Class {
    let leaves = vec![Just('a'), Just('b'), Any];
    let unary = vec![u1(|a| Some(TryMap(a))), u1(|a| Some(TryMapWith(a))), u1(|a| Some(Filter(a))), u1(|a| Some(OrNot(a)))];
    let binary = vec![u2(|a, c| Some(Then(a, c))), u2(|a, c| Some(Or(a, c)))];
    Class { name: "Kalt", leaves, unary, binary, ternary: vec![] }
}

/// Focused failed-recovery class (C08): emitters inside parsers and inside recovery strategies, no other
/// backtracking construct - so that what a recover_with leaves behind when both its parser and its strategy
/// fail ("fails with that same error and consumes nothing") shows in the error list of the failed parse.
pub fn k_recfail() -> Class {
    let leaves = vec![Just('a'), Just('b'), Any];
    let unary = vec![u1(|a| Some(Validate(a, 1)))];
    let binary = vec![
        u2(|a, c| Some(Then(a, c))),
        u2(|a, f| Some(Recover(a, f))),
        u2(|a, u| Some(SkipUntil(a, b(Any), u))),
        u2(|a, u| Some(Retry(a, b(Any), u))),
        // a skip step that reports something itself: what it emitted is not the retry's doing
        u2(|a, u| Some(Retry(a, b(Validate(b(Any), 2)), u))),
        u2(|a, u| Some(SkipUntil(a, b(Validate(b(Any), 2)), u))),
    ];
    Class { name: "Krecfail", leaves, unary, binary, ternary: vec![] }
}
