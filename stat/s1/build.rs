include!("../gen.rs");
fn main() {
    generate(1, 6);
}
