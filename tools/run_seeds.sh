#!/bin/bash
# run_seeds.sh [seed-name ...]   — apply each seeded change to /repo, run the quick check of the
# property it targets (and any extra checks given in $EXTRA, space separated), undo the change.
# Writes /verif/seeded/<name>/result.json.  /repo must be clean.
V=$(cd "$(dirname "$0")/.." && pwd); REPO=${REPO:-/repo}; cd "$V" || exit 2
if [ -n "$(git -C $REPO status --porcelain)" ]; then echo "$REPO is not clean"; exit 2; fi
names="$@"; [ -z "$names" ] && names=$(ls seeded)
# evidence files are rewritten by every run: keep those of the unchanged tree
EVB=$(mktemp -d); cp -a evidence/. $EVB/
for n in $names; do
  d=seeded/$n; [ -f $d/patch.diff ] || continue
  prop=$(python3 -c "import json;print(json.load(open('$d/meta.json'))['property'])" 2>/dev/null)
  pf=$V/$d/patch.diff; [ -f $V/$d/patch-rebased.diff ] && pf=$V/$d/patch-rebased.diff
  if ! git -C $REPO apply --3way $pf >/dev/null 2>&1; then
     git -C $REPO reset -q --hard HEAD
     echo "$n: patch does not apply to the current /repo"; echo '{"applies": false}' > $d/result.json; continue
  fi
  git -C $REPO reset -q   # --3way stages; keep it as a working-tree change only
  res="{\"applies\": true"
  for p in $prop $EXTRA; do
    out=$(./check $p --tier ${TIER:-quick} 2>&1); code=$?
    nv=$(echo "$out" | grep -c "^VIOLATION")
    echo "$n: check $p exit=$code violations_printed=$nv"
    res="$res, \"$p\": {\"exit\": $code, \"violation_lines\": $nv}"
    if [ $code = 1 ]; then f=$(echo "$out" | grep "^VIOLATION" | head -1 | sed 's/.*replay=//'); [ -f "$f" ] && cp "$f" $d/example-replay-$p.json; fi
  done
  echo "$res}" > $d/result.json
  git -C $REPO checkout -- .
done
./check C01 --tier quick >/dev/null 2>&1   # rebuild against the restored tree
cp -a $EVB/. evidence/; rm -rf $EVB
