include!("../gen.rs");
fn main() {
    generate(4, 6);
}
