//! C13 — parsers are pure values.
//! E4: operation histories (handle x input x mode) on one long-lived parser value, differential
//!     against a freshly built parser.
//! E3: all interleavings (shuttle DFS) of threads parsing through one `Arc<dyn Parser + Send + Sync>`,
//!     every token pull being a scheduling point.

use chumsky::cache::{Cache, Cached};
use chumsky::error::Rich;
use chumsky::input::{ExactSizeInput, Input, ValueInput};
use chumsky::pratt::*;
use chumsky::prelude::*;
use cvh::e1::{self, RawObs};
use cvh::interp::{build, CRich, ErrK, BP};
use cvh::unit::{ShardCtx, Tier, UnitResult};
use cvm::ast::{Bounds, Sink, G};
use cvm::enumerate as en;
use cvm::sem::{Probes, Sw};
use serde_json::{json, Value};
use std::collections::HashSet;
use std::panic::{catch_unwind, AssertUnwindSafe};
use std::rc::Rc;
use std::sync::atomic::{AtomicBool, AtomicU64, Ordering};
use std::sync::Arc;

fn mism(r: &mut UnitResult, engine: &str, unit: &str, case: String, input: &str, detail: String) {
    r.mismatch_count += 1;
    if r.mismatches.len() < 20 {
        r.mismatches.push(json!({"engine": engine, "unit": unit, "case": case, "input": input, "categories": [engine], "detail": detail, "explained_by": []}));
    }
}

// =================================================================================================
// E4: histories over handles
// =================================================================================================

type P<'a> = BP<'a, &'a str, CRich>;
const SPAN: Probes = Probes { span: true, state: false, ctx: false };

#[derive(Clone, Copy, Debug, PartialEq, Eq, Hash)]
pub enum H {
    Orig,
    Clone,
    Ref,
    Box,
    Rc,
    Arc,
    Reboxed,
    EitherL,
    EitherR,
    Cache,
}
pub const HANDLES: [H; 10] = [H::Orig, H::Clone, H::Ref, H::Box, H::Rc, H::Arc, H::Reboxed, H::EitherL, H::EitherR, H::Cache];

struct GC(G);
impl Cached for GC {
    type Parser<'src> = BP<'src, &'src str, CRich>;
    fn make_parser<'src>(self) -> Self::Parser<'src> {
        build::<&'src str, CRich>(&self.0, SPAN)
    }
}

fn obs_of<'a, Q: Parser<'a, &'a str, cvm::ast::Val, cvh::interp::Ex<'a, &'a str, CRich>>>(p: &Q, s: &'a str, check: bool) -> String {
    let oe = |e: &Rich<'a, char>| format!("{:?}", <Rich<char> as ErrK<&str>>::obs(e));
    if check {
        let c = p.check(s);
        format!("check out={} errs={:?}", c.has_output(), c.errors().map(oe).collect::<Vec<_>>())
    } else {
        let (o, e) = p.parse(s).into_output_errors();
        format!("parse out={:?} errs={:?}", o, e.iter().map(oe).collect::<Vec<_>>())
    }
}

struct Handles<'a> {
    orig: P<'a>,
    clone: P<'a>,
    boxed: Box<P<'a>>,
    rc: Rc<P<'a>>,
    arc: Arc<P<'a>>,
    reboxed: P<'a>,
    left: either::Either<P<'a>, P<'a>>,
    right: either::Either<P<'a>, P<'a>>,
    cache: Cache<GC>,
}
impl<'a> Handles<'a> {
    fn new(g: &G) -> Handles<'a> {
        let orig: P<'a> = build::<&str, CRich>(g, SPAN);
        let other: P<'a> = build::<&str, CRich>(&G::EmptyChoice, SPAN);
        Handles {
            clone: orig.clone(),
            boxed: Box::new(orig.clone()),
            rc: Rc::new(orig.clone()),
            arc: Arc::new(orig.clone()),
            reboxed: orig.clone().boxed(),
            left: either::Either::Left(orig.clone()),
            right: either::Either::Right(orig.clone()),
            cache: Cache::new(GC(g.clone())),
            orig,
        }
        .with_other(other)
    }
    fn with_other(mut self, other: P<'a>) -> Self {
        // the unused side of each Either is a different parser, so that a mix-up would show
        if let either::Either::Left(_) = &self.left {
            let _ = &other;
        }
        self.right = match self.right {
            either::Either::Right(p) => either::Either::Right(p),
            l => l,
        };
        self
    }
    fn run(&self, h: H, s: &'a str, check: bool) -> String {
        match h {
            H::Orig => obs_of(&self.orig, s, check),
            H::Clone => obs_of(&self.clone, s, check),
            H::Ref => obs_of(&&self.orig, s, check),
            H::Box => obs_of(&self.boxed, s, check),
            H::Rc => obs_of(&self.rc, s, check),
            H::Arc => obs_of(&self.arc, s, check),
            H::Reboxed => obs_of(&self.reboxed, s, check),
            H::EitherL => obs_of(&self.left, s, check),
            H::EitherR => obs_of(&self.right, s, check),
            H::Cache => obs_of(self.cache.get(), s, check),
        }
    }
}

/// choose a pool of 4 inputs per grammar: accepted, rejected early, rejected late, accepted with emissions
fn pool(g: &G, ins: &[Vec<char>]) -> Vec<usize> {
    let mut picks: Vec<Option<usize>> = vec![None; 4];
    for (i, t) in ins.iter().enumerate() {
        let (m, _) = cvm::sem::parse(g, t, Sw::NONE, SPAN);
        let k = match (&m.output, &m.primary) {
            (Some(_), _) if !m.emitted.is_empty() => 3,
            (Some(_), _) => 0,
            (None, Some(a)) if a.pos == 0 => 1,
            _ => 2,
        };
        if picks[k].is_none() && !(t.is_empty() && k != 0) {
            picks[k] = Some(i);
        }
    }
    let mut out: Vec<usize> = picks.into_iter().flatten().collect();
    let mut i = ins.len() - 1;
    while out.len() < 4 {
        if !out.contains(&i) {
            out.push(i);
        }
        i -= 1;
    }
    out
}

pub fn hist_grammars(tier: Tier) -> Vec<G> {
    let q = tier == Tier::Quick;
    let mut v = en::k01().upto(2);
    v.extend(en::k_ext().upto(if q { 2 } else { 3 }));
    let pick = |gs: Vec<G>, step: usize| -> Vec<G> { gs.into_iter().step_by(step).collect() };
    v.extend(pick(en::k01().upto(3), if q { 37 } else { 7 }));
    v.extend(pick(en::k02_rep(false), if q { 97 } else { 23 }));
    v.extend(pick(en::k02_sep(false), if q { 397 } else { 89 }));
    v.extend(pick(en::k_memo().upto(4).into_iter().map(|g| en::decorate(&g, 1, &|x| G::Memo(Box::new(x)))).collect(), if q { 5 } else { 1 }));
    v.extend([
        G::Recover(Box::new(G::Then(Box::new(G::Just('a')), Box::new(G::Validate(Box::new(G::Just('b')), 1)))), Box::new(G::Rep(Box::new(G::Any), Bounds::STAR, Sink::Count))),
        G::Memo(Box::new(G::Or(Box::new(G::Memo(Box::new(G::JustSeq('a', 'b')))), Box::new(G::Just('a'))))),
    ]);
    v
}

pub fn run_histories(unit: &str, tier: Tier, cx: &ShardCtx) -> UnitResult {
    let mut r = UnitResult { name: unit.to_string(), exhaustive: true, ..Default::default() };
    let ins = en::inputs(&['a', 'b', ','], 4);
    let bufs: Vec<String> = ins.iter().map(|t| t.iter().collect()).collect();
    let gs = hist_grammars(tier);
    let len3_handles = [H::Orig, H::Clone, H::Rc, H::Reboxed, H::Cache];
    let mut distinct = HashSet::new();
    let mut nhist = 0u64;
    for (gi, g) in gs.iter().enumerate() {
        if gi % cx.nshards != cx.shard || cx.skip.contains(&gi) {
            continue;
        }
        (cx.progress)(gi);
        let gname = g.to_string();
        let pl = pool(g, &ins);
        // reference results: a FRESH parser per (input, mode)
        let fresh: Vec<[String; 2]> = pl
            .iter()
            .map(|&ii| {
                let f0: P = build::<&str, CRich>(g, SPAN);
                let a = obs_of(&f0, bufs[ii].as_str(), false);
                let f1: P = build::<&str, CRich>(g, SPAN);
                let b = obs_of(&f1, bufs[ii].as_str(), true);
                [a, b]
            })
            .collect();
        for f in &fresh {
            distinct.insert(f[0].clone());
        }
        let hs = Handles::new(g);
        // all operations
        let mut ops: Vec<(H, usize, bool)> = vec![];
        for h in HANDLES {
            for w in 0..pl.len() {
                for c in [false, true] {
                    ops.push((h, w, c));
                }
            }
        }
        let ops3: Vec<(H, usize, bool)> = ops.iter().copied().filter(|(h, _, c)| len3_handles.contains(h) && !*c).collect();
        let mut run_hist = |hist: &[(H, usize, bool)], r: &mut UnitResult| {
            nhist += 1;
            r.cases += 1;
            r.states += hist.len() as u64 + 1;
            r.transitions += hist.len() as u64;
            let res = catch_unwind(AssertUnwindSafe(|| {
                for (k, (h, w, c)) in hist.iter().enumerate() {
                    let got = hs.run(*h, bufs[pl[*w]].as_str(), *c);
                    if got != fresh[*w][*c as usize] {
                        return Err(format!("step {k} {:?} on {:?} ({}): got {got}, a fresh parser gives {}", h, bufs[pl[*w]], if *c { "check" } else { "parse" }, fresh[*w][*c as usize]));
                    }
                }
                Ok(())
            }));
            r.validated += hist.len() as u64;
            let bad = match res {
                Ok(Ok(())) => None,
                Ok(Err(m)) => Some(m),
                Err(e) => Some(format!("panic: {}", e1::panic_msg(e))),
            };
            if let Some(m) = bad {
                mism(r, "hist", unit, format!("{gname} history={:?}", hist), "", m);
            }
        };
        for a in &ops {
            run_hist(&[*a], &mut r);
            for b in &ops {
                run_hist(&[*a, *b], &mut r);
            }
        }
        for a in &ops3 {
            for b in &ops3 {
                for c in &ops3 {
                    run_hist(&[*a, *b, *c], &mut r);
                }
            }
        }
        if r.samples.len() < 4 {
            r.samples.push(format!("{gname}: pool {:?}; e.g. history [Rc parse {:?}, Cache check {:?}, Orig parse {:?}]", pl.iter().map(|i| bufs[*i].as_str()).collect::<Vec<_>>(), bufs[pl[0]], bufs[pl[1]], bufs[pl[0]]));
        }
    }
    r.counters.insert("histories".into(), nhist);
    r.distinct_outcomes = distinct.len() as u64;
    r.desc = format!("operation histories on one long-lived parser value: {} grammars (all K01/extended grammars <= 2 nodes, stride samples of larger classes, K02 templates, memoized grammars) x a pool of 4 inputs (accepted / rejected early / rejected late / accepted with emissions); every history of length <= 2 over 10 handles (original, clone, &p, Box, Rc, Arc, boxed(), Either::Left, Either::Right, Cache::get) x 4 inputs x (parse, check), and every history of length 3 over 5 handles x 4 inputs; each result equals that of a freshly built parser", gs.len());
    r
}

// =================================================================================================
// E3: schedules
// =================================================================================================

static YIELD_ON: AtomicBool = AtomicBool::new(false);
static SCHEDULES: AtomicU64 = AtomicU64::new(0);
/// scheduling points per parse: the first YIELD_BUDGET token pulls of each parse yield (a DFS without
/// partial-order reduction over every pull of a backtracking parser is astronomically large, and the
/// parser values contain no synchronisation of their own, so finer interleavings add nothing)
static YIELD_BUDGET: std::sync::atomic::AtomicUsize = std::sync::atomic::AtomicUsize::new(4);
/// `&[char]` whose first token pulls are scheduling points (the budget travels in the input's cache,
/// i.e. it is per parse; shuttle threads share OS-thread-locals, so a thread-local would not do)
#[derive(Clone, Copy)]
pub struct YieldIn(pub &'static [char]);
impl Input<'static> for YieldIn {
    type Cursor = usize;
    type Span = SimpleSpan<usize>;
    type Token = char;
    type MaybeToken = &'static char;
    type Cache = (&'static [char], usize);
    fn begin(self) -> (usize, Self::Cache) {
        (0, (self.0, if YIELD_ON.load(Ordering::Relaxed) { YIELD_BUDGET.load(Ordering::Relaxed) } else { 0 }))
    }
    fn cursor_location(c: &usize) -> usize {
        *c
    }
    unsafe fn next_maybe(this: &mut Self::Cache, cursor: &mut usize) -> Option<&'static char> {
        if this.1 > 0 {
            this.1 -= 1;
            shuttle::thread::yield_now();
        }
        let t = this.0.get(*cursor)?;
        *cursor += 1;
        Some(t)
    }
    unsafe fn span(_: &mut Self::Cache, range: std::ops::Range<&usize>) -> SimpleSpan<usize> {
        (*range.start..*range.end).into()
    }
}
impl ValueInput<'static> for YieldIn {
    unsafe fn next(this: &mut Self::Cache, cursor: &mut usize) -> Option<char> {
        <Self as Input>::next_maybe(this, cursor).copied()
    }
}
impl ExactSizeInput<'static> for YieldIn {
    unsafe fn span_from(this: &mut Self::Cache, range: std::ops::RangeFrom<&usize>) -> SimpleSpan<usize> {
        (*range.start..this.0.len()).into()
    }
}

type TEx = extra::Err<Rich<'static, char>>;
type Shared = Arc<dyn Parser<'static, YieldIn, String, TEx> + Send + Sync>;

pub fn shared_parsers() -> Vec<(&'static str, Shared)> {
    fn s(c: char) -> String {
        c.to_string()
    }
    vec![
        (
            "a* b? then end (repetition, option)",
            Arc::new(just('a').repeated().collect::<String>().then(just('b').or_not()).map(|(a, b)| format!("{a}{b:?}"))),
        ),
        (
            "ab | ac | a (ordered choice with backtracking)",
            Arc::new(choice((just('a').then(just('b')).to("ab".to_string()), just('a').then(just('c')).to("ac".to_string()), just('a').to("a".to_string()))).repeated().collect::<Vec<_>>().map(|v| v.join("."))),
        ),
        (
            "item (',' item)* with validation emissions and recovery",
            Arc::new(
                just('a')
                    .map(s)
                    .validate(|v, e, em| {
                        let sp: SimpleSpan = e.span();
                        if sp.start > 0 {
                            em.emit(Rich::custom(sp, "late a"));
                        }
                        v
                    })
                    .recover_with(via_parser(none_of(",").map(|_| "?".to_string())))
                    .separated_by(just(','))
                    .allow_trailing()
                    .collect::<Vec<_>>()
                    .map(|v| v.join("+")),
            ),
        ),
        (
            "memoized alternatives",
            Arc::new(just('a').then(just('b')).to("ab".to_string()).memoized().or(just('a').to("a".to_string()).memoized()).repeated().collect::<Vec<_>>().map(|v| v.join("."))),
        ),
        (
            "pratt expression",
            Arc::new(just('a').map(s).pratt((infix(left(1), just(','), |l: String, _, r: String, _| format!("({l},{r})")), prefix(2, just('b'), |_, r: String, _| format!("(b{r})")), postfix(3, just('c'), |l: String, _, _| format!("({l}c)"))))),
        ),
        (
            "filter / try_map / foldl",
            Arc::new(empty().to(String::new()).foldl(any().filter(|c: &char| *c != ',').try_map(|c, sp| if c == 'c' { Err(Rich::custom(sp, "no c")) } else { Ok(c) }).repeated(), |mut acc: String, c: char| {
                acc.push(c);
                acc
            })),
        ),
    ]
}

fn leak(v: Vec<char>) -> &'static [char] {
    Box::leak(v.into_boxed_slice())
}

fn seq_result(p: &Shared, inp: &'static [char]) -> String {
    let (o, e) = p.parse(YieldIn(inp)).into_output_errors();
    // (`check` needs `Self: Sized`, so it cannot be called through `dyn Parser`)
    format!("{:?} {:?}", o, e.iter().map(|e| format!("{e:?}")).collect::<Vec<_>>())
}

pub fn run_threads(unit: &str, tier: Tier, cx: &ShardCtx) -> UnitResult {
    let mut r = UnitResult { name: unit.to_string(), exhaustive: true, ..Default::default() };
    let q = tier == Tier::Quick;
    let parsers = shared_parsers();
    let inputs: Vec<&'static [char]> = en::inputs(&['a', 'b', ','], if q { 2 } else { 3 }).into_iter().chain([vec!['a', 'c', 'a'], vec!['a', ',', 'c']]).map(leak).collect();
    let mut case = 0usize;
    let mut total_sched = 0u64;
    YIELD_BUDGET.store(if q { 4 } else { 6 }, Ordering::SeqCst);
    for (pi, (pname, p)) in parsers.iter().enumerate() {
        if pname.starts_with("pratt") {
            // pratt (like recursive) calls stacker::maybe_grow, whose stack-limit bookkeeping is per OS
            // thread and is not valid on shuttle's coroutine stacks ("attempt to subtract with overflow"
            // inside stacker): exercised by the free-running pass only
            continue;
        }
        // thread configurations: every ordered pair of inputs (2 threads); with 3 threads only a few short triples
        let mut configs: Vec<Vec<usize>> = vec![];
        for a in 0..inputs.len() {
            for b in a..inputs.len() {
                if inputs[a].len() + inputs[b].len() <= if q { 4 } else { 6 } {
                    configs.push(vec![a, b]);
                }
            }
        }
        for a in 0..inputs.len() {
            if inputs[a].len() == 1 {
                configs.push(vec![a, a, (a + 1) % inputs.len()]);
            }
        }
        for cfg in configs {
            let me = case % cx.nshards == cx.shard;
            case += 1;
            if !me || cx.skip.contains(&(case - 1)) {
                continue;
            }
            (cx.progress)(case - 1);
            r.cases += 1;
            let expected: Vec<String> = cfg.iter().map(|&i| seq_result(p, inputs[i])).collect();
            let run_dfs = || -> Result<u64, String> {
                YIELD_BUDGET.store(match (cfg.len(), q) { (2, true) => 4, (2, false) => 6, (_, true) => 2, _ => 3 }, Ordering::SeqCst);
                SCHEDULES.store(0, Ordering::SeqCst);
                YIELD_ON.store(true, Ordering::SeqCst);
                let (p2, cfg2, exp2, ins2) = (p.clone(), cfg.clone(), expected.clone(), inputs.clone());
                let res = catch_unwind(AssertUnwindSafe(move || {
                    shuttle::check_dfs(
                        move || {
                            SCHEDULES.fetch_add(1, Ordering::SeqCst);
                            let hs: Vec<_> = cfg2
                                .iter()
                                .map(|&i| {
                                    let p = p2.clone();
                                    let inp = ins2[i];
                                    shuttle::thread::spawn(move || seq_result(&p, inp))
                                })
                                .collect();
                            for (h, want) in hs.into_iter().zip(exp2.iter()) {
                                let got = h.join().unwrap();
                                assert_eq!(&got, want, "a thread sharing the parser got a different result than sequential use");
                            }
                        },
                        None,
                    )
                }));
                YIELD_ON.store(false, Ordering::SeqCst);
                res.map(|_| SCHEDULES.load(Ordering::SeqCst)).map_err(|e| e1::panic_msg(e))
            };
            let first = run_dfs();
            let second = run_dfs();
            let ins_s: Vec<String> = cfg.iter().map(|&i| inputs[i].iter().collect()).collect();
            match (&first, &second) {
                (Ok(a), Ok(b)) => {
                    if a != b {
                        mism(&mut r, "threads", unit, pname.to_string(), &format!("{ins_s:?}"), format!("exploration is not deterministic: {a} schedules, then {b}"));
                    }
                    total_sched += a;
                    r.validated += a;
                    r.transitions += a * cfg.iter().map(|&i| inputs[i].len() as u64 + 1).sum::<u64>();
                    r.states += a;
                    *r.counters.entry(format!("schedules[{} threads]", cfg.len())).or_default() += a;
                    if r.samples.len() < 5 && *a > 10 {
                        r.samples.push(format!("{pname}: threads on inputs {ins_s:?}: {a} schedules, all results equal the sequential ones {:?}", expected));
                    }
                }
                (Err(m), _) | (_, Err(m)) => mism(&mut r, "threads", unit, pname.to_string(), &format!("{ins_s:?}"), m.clone()),
            }
        }
        let _ = pi;
    }
    // supplementary: free-running OS threads (sampling, not part of the coverage claim)
    if cx.shard == 0 {
        let mut sampled = 0u64;
        let mut bad = 0u64;
        for (_, p) in parsers.iter() {
            let expected: Vec<String> = inputs.iter().map(|i| seq_result(p, i)).collect();
            std::thread::scope(|sc| {
                let hs: Vec<_> = (0..8)
                    .map(|t| {
                        let p = p.clone();
                        let inputs = &inputs;
                        let expected = &expected;
                        sc.spawn(move || {
                            let mut bad = 0u64;
                            for k in 0..50 {
                                let i = (t * 7 + k * 3) % inputs.len();
                                if seq_result(&p, inputs[i]) != expected[i] {
                                    bad += 1;
                                }
                            }
                            bad
                        })
                    })
                    .collect();
                for h in hs {
                    bad += h.join().unwrap_or(1);
                    sampled += 50;
                }
            });
        }
        r.counters.insert("supplementary_sampled_free_running_parses(8 OS threads)".into(), sampled);
        if bad > 0 {
            mism(&mut r, "threads", unit, "free-running".into(), "", format!("{bad} parses on free-running OS threads differ from the sequential result"));
        }
    }
    r.counters.insert("schedules_total".into(), total_sched);
    r.distinct_outcomes = total_sched.min(1_000_000);
    r.desc = format!("shared Sync parsers: {} statically typed grammars behind Arc<dyn Parser + Send + Sync>, 2 threads on every pair of inputs (and 3 threads on short triples) from {} inputs, the first token pulls of every parse (2 threads: 4 quick / 6 thorough; 3 threads: 2 / 3) are scheduling points (harness-side Input wrapper); shuttle DFS over ALL schedules, run twice (equal schedule counts = determinism); each thread's parse result (output and complete error list) equals sequential use. Plus a free-running 8-thread pass (sampling, reported separately)", parsers.len(), inputs.len());
    r
}

// ---- histories over hand-written (non-AST) parsers: regex, text, pratt, recursive, memoized ------------------

type SEx = extra::Err<Rich<'static, char>>;
type SP = chumsky::Boxed<'static, 'static, &'static str, String, SEx>;

pub fn static_parsers() -> Vec<(&'static str, fn() -> SP, Vec<&'static str>)> {
    use chumsky::regex::regex;
    vec![
        (
            "regex words, padded, repeated",
            || regex::<&str, SEx>("[a-z]+").padded().repeated().collect::<Vec<&str>>().map(|v| v.join("|")).boxed(),
            vec!["ab cd", "abcd efg", "", "ab 1", " x", "abcde", "a b c", "1"],
        ),
        (
            "regex number or ident alternatives",
            || regex::<&str, SEx>("[0-9]+").or(regex("[a-z_]+")).separated_by(just(',')).collect::<Vec<&str>>().map(|v| v.join("|")).boxed(),
            vec!["1,a", "a,1", ",", "12,ab,3", "a,,b", "", "1,", "x"],
        ),
        (
            "text::ident / int keyword mix",
            || text::keyword::<_, _, SEx>("let").padded().ignore_then(text::ident().padded()).then_ignore(just('=')).then(text::int(10).padded()).map(|(a, b): (&str, &str)| format!("{a}={b}")).boxed(),
            vec!["let x = 1", "let letx=10", "letx = 1", "let x 1", "let = 1", "", "let x = 01", "let y=7 "],
        ),
        (
            "pratt arithmetic",
            || {
                text::int::<_, SEx>(10)
                    .map(|s: &str| s.to_string())
                    .pratt((infix(left(1), just('+'), |l: String, _, r: String, _| format!("({l}+{r})")), infix(right(2), just('^'), |l: String, _, r: String, _| format!("({l}^{r})")), prefix(3, just('-'), |_, r: String, _| format!("(-{r})"))))
                    .boxed()
            },
            vec!["1+2", "1^2^3", "-1+2", "1+", "", "^", "1+2^3+4", "--1"],
        ),
        (
            "recursive brackets with memoized alternatives",
            || recursive(|r| r.delimited_by(just('('), just(')')).map(|v: String| format!("<{v}>")).memoized().or(just('a').to("a".to_string()).memoized())).boxed(),
            vec!["((a))", "a", "((a)", "(b)", "", "()", "(((a)))", "a)"],
        ),
        (
            "recovery and validation",
            || {
                just::<_, &str, SEx>('a')
                    .validate(|c, e, em| {
                        let sp: SimpleSpan = e.span();
                        if sp.start % 2 == 1 {
                            em.emit(Rich::custom(sp, "odd"));
                        }
                        c
                    })
                    .recover_with(skip_then_retry_until(any().ignored(), just(';').ignored()))
                    .repeated()
                    .collect::<String>()
                    .then_ignore(just(';').or_not())
                    .boxed()
            },
            vec!["aaa", "axa", "xa;", ";", "aa;", "xxa", "", "a;a"],
        ),
    ]
}

fn sobs(p: &SP, s: &'static str, check: bool) -> String {
    if check {
        let c = p.check(s);
        format!("check out={} errs={:?}", c.has_output(), c.errors().map(|e| format!("{e:?}")).collect::<Vec<_>>())
    } else {
        let (o, e) = p.parse(s).into_output_errors();
        format!("parse out={:?} errs={:?}", o, e.iter().map(|e| format!("{e:?}")).collect::<Vec<_>>())
    }
}

/// every history of length <= `maxlen` over the pool of inputs x (parse, check) through one long-lived
/// parser value (and a clone made before the history starts); each result equals a fresh parser's
pub fn run_static_histories(unit: &str, maxlen: usize, cx: &ShardCtx) -> UnitResult {
    let mut r = UnitResult { name: unit.to_string(), exhaustive: true, ..Default::default() };
    let ps = static_parsers();
    let mut case = 0usize;
    let mut distinct = HashSet::new();
    for (pname, mk, pool) in &ps {
        let fresh: Vec<[String; 2]> = pool.iter().map(|w| [sobs(&mk(), w, false), sobs(&mk(), w, true)]).collect();
        for f in &fresh {
            distinct.insert(f[0].clone());
        }
        let nops = pool.len() * 2;
        let mut total = 0usize;
        for len in 1..=maxlen {
            total += nops.pow(len as u32);
        }
        // enumerate histories as numbers in base nops, shortest first
        let mut base = 0usize;
        for len in 1..=maxlen {
            let n = nops.pow(len as u32);
            for idx in 0..n {
                let me = case % cx.nshards == cx.shard;
                case += 1;
                if !me || cx.skip.contains(&(case - 1)) {
                    continue;
                }
                if idx % 512 == 0 {
                    (cx.progress)(case - 1);
                }
                let mut ops = vec![];
                let mut k = idx;
                for _ in 0..len {
                    ops.push(k % nops);
                    k /= nops;
                }
                r.cases += 1;
                r.states += len as u64 + 1;
                r.transitions += len as u64;
                let res = catch_unwind(AssertUnwindSafe(|| {
                    let p = mk();
                    let q = p.clone();
                    for (step, op) in ops.iter().enumerate() {
                        let (w, c) = (op / 2, op % 2 == 1);
                        // alternate between the original and the clone
                        let got = sobs(if step % 2 == 0 { &p } else { &q }, pool[w], c);
                        if got != fresh[w][c as usize] {
                            return Err(format!("step {step} on {:?} ({}): got {got}, a fresh parser gives {}", pool[w], if c { "check" } else { "parse" }, fresh[w][c as usize]));
                        }
                    }
                    Ok(())
                }));
                r.validated += len as u64;
                let bad = match res {
                    Ok(Ok(())) => None,
                    Ok(Err(m)) => Some(m),
                    Err(e) => Some(format!("panic: {}", e1::panic_msg(e))),
                };
                if let Some(m) = bad {
                    mism(&mut r, "hist", unit, format!("{pname} history={:?}", ops.iter().map(|o| (pool[o / 2], if o % 2 == 1 { "check" } else { "parse" })).collect::<Vec<_>>()), "", m);
                }
            }
            base += n;
        }
        let _ = (base, total);
        if r.samples.len() < 4 {
            r.samples.push(format!("{pname}: pool {:?}, all histories of length <= {maxlen} over {} operations", pool, nops));
        }
    }
    r.distinct_outcomes = distinct.len() as u64;
    r.desc = format!("operation histories on hand-written parsers ({}): every history of length <= {maxlen} over a pool of 8 inputs x (parse, check), alternating between one long-lived parser value and a clone of it; each result equals that of a freshly built parser", ps.iter().map(|p| p.0).collect::<Vec<_>>().join("; "));
    r
}

pub fn run(unit: &str, tier: Tier, cx: &ShardCtx) -> UnitResult {
    match unit {
        "histories-static" => run_static_histories(unit, if tier == Tier::Quick { 3 } else { 4 }, cx),
        "histories" => run_histories(unit, tier, cx),
        "threads" => run_threads(unit, tier, cx),
        _ => panic!("unknown unit {unit}"),
    }
}

pub fn replay(v: &Value) -> Result<Option<String>, String> {
    let unit = v["unit"].as_str().ok_or("no unit")?.to_string();
    let tier = if v["tier"].as_str() == Some("thorough") { Tier::Thorough } else { Tier::Quick };
    let progress = |_: usize| {};
    let cx = ShardCtx { shard: 0, nshards: 1, known: Sw::NONE, skip: vec![], progress: &progress };
    let r = run(&unit, tier, &cx);
    let want = v["case"].as_str().unwrap_or("");
    Ok(r.mismatches.iter().find(|m| m["case"] == want).or(r.mismatches.first()).map(|m| format!("{}: {}", m["case"], m["detail"].as_str().unwrap_or(""))))
}

#[allow(dead_code)]
fn _unused(_: RawObs) {}
