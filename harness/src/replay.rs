//! Re-run one recorded violation (the JSON written by the orchestrator).

use crate::unit::*;
use cvm::sem::{Probes, Sw};
use serde_json::Value;

/// Ok(None) = the case no longer mismatches; Ok(Some(detail)) = still a violation.
pub fn replay(v: &Value) -> Result<Option<String>, String> {
    match v["engine"].as_str().unwrap_or("") {
        "e1" => {
            let g = cvm::ast::parse_g(v["grammar"].as_str().ok_or("no grammar")?)?;
            let pair_mode = crate::e1::pair_mode_from(v["pair_mode"].as_str().unwrap_or(""));
            let grammars = match (&g, pair_mode) {
                (cvm::ast::G::Group(_, ab), Some(_)) if ab.len() == 2 => ab.clone(),
                _ => vec![g],
            };
            let input: Vec<char> = v["input"].as_str().ok_or("no input")?.chars().collect();
            let kind = KindId::from_name(v["kind"].as_str().unwrap_or("")).ok_or("unknown kind")?;
            let cfg = CfgId::from_name(v["cfg"].as_str().unwrap_or("")).ok_or("unknown cfg")?;
            let pr = v["probes"].as_array().ok_or("no probes")?;
            let probes = Probes { span: pr[0].as_bool().unwrap_or(false), state: pr[1].as_bool().unwrap_or(false), ctx: pr[2].as_bool().unwrap_or(false) };
            let unit = E1Unit {
                name: "replay".into(),
                grammars,
                class_desc: "replay".into(),
                alphabet: vec![],
                max_len: 0,
                kind,
                cfg,
                probes,
                alarm: v["alarm"].as_u64().unwrap_or(!0) as u32,
                skip_not_content: v["skip_not_content"].as_bool().unwrap_or(true),
                lazy: v["lazy"].as_bool().unwrap_or(false),
                pair_mode,
                clone_mode: v["clone_mode"].as_bool().unwrap_or(false),
                explicit_inputs: None,
                static_set: v["static_set"].as_str().map(String::from),
            };
            let progress = |_: usize| {};
            let cx = ShardCtx { shard: 0, nshards: 1, known: Sw::NONE, skip: vec![], progress: &progress };
            let r = run_e1_unit_on(&unit, &cx, Some(vec![input]));
            Ok(r.mismatches.first().map(|m| format!("{}\n{}", m["grammar"], m["detail"].as_str().unwrap_or(""))))
        }
        "crash" => Err("process-death records are replayed by re-running the check; no single-case replay".into()),
        other => crate::replay_custom(other, v),
    }
}
