//! REFERENCE MODEL: executable PEG semantics of the combinators plus the bookkeeping of the
//! pending primary error ("alt"), the emitted (non-fatal) errors, the inspector state and the
//! context.  No chumsky code is used here.
//!
//! `Sw` holds *as-implemented switches*: each one makes the model deviate from the
//! specification in exactly the way one known defect of the pinned commit does.  Checks always
//! run with all switches off (pure specification); switches are only used to *classify* a
//! mismatch as a listed known finding (see DESIGN.md section 6).

use crate::ast::*;
use std::collections::BTreeSet;

#[derive(Clone, Copy, Debug, PartialEq, Eq, Hash, Default)]
pub struct Sw(pub u32);

impl Sw {
    pub const NONE: Sw = Sw(0);
    /// try_map re-homes the inner pending error to its own start on success
    pub const TRY_MAP_REHOMES_ON_OK: u32 = 1 << 0;
    /// try_map loses the previously pending error when its inner parser fails
    pub const TRY_MAP_DROPS_ALT_ON_INNER_FAIL: u32 = 1 << 1;
    /// map_err drops the previously pending error when its parser succeeds
    pub const MAP_ERR_DROPS_ALT_ON_OK: u32 = 1 << 2;
    /// filter reports found = None for a rejected non-empty match
    pub const FILTER_FOUND_NONE: u32 = 1 << 3;
    /// and_is truncates the emissions of its (kept) first parser and of the look-ahead
    pub const AND_IS_TRUNCATES_EMISSIONS: u32 = 1 << 4;
    /// rewind truncates the emissions of its (kept) parser
    pub const REWIND_TRUNCATES_EMISSIONS: u32 = 1 << 5;
    /// collect_exactly fails without recording an error when the iterator just ends
    pub const COLLECT_EXACTLY_NO_ALT: u32 = 1 << 6;

    pub const NAMES: &'static [(&'static str, u32)] = &[
        ("try_map_rehomes_on_ok", Self::TRY_MAP_REHOMES_ON_OK),
        ("try_map_drops_alt_on_inner_fail", Self::TRY_MAP_DROPS_ALT_ON_INNER_FAIL),
        ("map_err_drops_alt_on_ok", Self::MAP_ERR_DROPS_ALT_ON_OK),
        ("filter_found_none", Self::FILTER_FOUND_NONE),
        ("and_is_truncates_emissions", Self::AND_IS_TRUNCATES_EMISSIONS),
        ("rewind_truncates_emissions", Self::REWIND_TRUNCATES_EMISSIONS),
        ("collect_exactly_no_alt", Self::COLLECT_EXACTLY_NO_ALT),
    ];

    #[inline]
    pub fn on(self, bit: u32) -> bool {
        self.0 & bit != 0
    }
    pub fn from_names(names: &[&str]) -> Sw {
        let mut s = 0;
        for n in names {
            for (k, v) in Self::NAMES {
                if k == n {
                    s |= v;
                }
            }
        }
        Sw(s)
    }
}

#[derive(Clone, Debug, PartialEq, Eq, PartialOrd, Ord, Hash)]
pub enum Exp {
    Tok(Tok),
    Any,
    SomethingElse,
    End,
    Label(String),
}

#[derive(Clone, Debug, PartialEq, Eq, Hash)]
pub struct Alt {
    /// position (token index) the error is filed under — the "furthest failure" key
    pub pos: usize,
    pub span: (usize, usize),
    /// what a Rich error reports as `found`
    pub found: Option<Tok>,
    /// `found` of the first event at this position (what Simple reports)
    pub found0: Option<Tok>,
    pub exp: BTreeSet<Exp>,
    pub custom: Option<String>,
    pub ctx: Vec<(String, (usize, usize))>,
}

#[derive(Clone, Copy, Debug, Default, PartialEq, Eq)]
pub struct Probes {
    pub span: bool,
    pub state: bool,
    pub ctx: bool,
}

/// Counters that show a run was not vacuous (reported in evidence).
#[derive(Clone, Debug, Default)]
pub struct Stats {
    pub steps: u64,
    pub states: u64,
    /// rewinds that discarded at least one emission
    pub discarded_emissions: u64,
    /// two failure events merged at the same position
    pub merges: u64,
    /// a later failure replaced an earlier pending one
    pub replacements: u64,
    /// an earlier failure was ignored because a later one was pending
    pub ignored_earlier: u64,
    /// span probes that saw an empty match
    pub empty_spans: u64,
    /// choice alternatives abandoned after consuming at least one token
    pub backtracks: u64,
    /// recoveries that produced output
    pub recoveries: u64,
    pub unspecified: u64,
}

impl Stats {
    pub fn add(&mut self, o: &Stats) {
        self.steps += o.steps;
        self.states += o.states;
        self.discarded_emissions += o.discarded_emissions;
        self.merges += o.merges;
        self.replacements += o.replacements;
        self.ignored_earlier += o.ignored_earlier;
        self.empty_spans += o.empty_spans;
        self.backtracks += o.backtracks;
        self.recoveries += o.recoveries;
        self.unspecified += o.unspecified;
    }
}

#[derive(Clone, Copy)]
pub struct Env {
    /// definition of the enclosing `Let` (raw: the grammar tree outlives evaluation)
    pub let_def: *const G,
    pub ctx: Tok,
    /// bodies of the enclosing `Rec` nodes, innermost first (raw: the grammar tree outlives evaluation)
    pub rec: [*const G; 2],
}
impl Env {
    pub fn new(ctx: Tok) -> Env {
        Env { ctx, rec: [std::ptr::null(); 2], let_def: std::ptr::null() }
    }
    fn with_ctx(self, ctx: Tok) -> Env {
        Env { ctx, ..self }
    }
}

pub struct World<'a> {
    pub toks: &'a [Tok],
    pub alt: Option<Alt>,
    pub emitted: Vec<Alt>,
    /// inspector state (count, hash)
    pub state: (u32, u64),
    pub sw: Sw,
    pub probes: Probes,
    /// an unspecified corner (DESIGN.md section 2) was exercised in this case
    pub unspecified: bool,
    pub failed_without_alt: bool,
    pub stats: Stats,
    /// (node address, position) pairs already counted as model states for this case
    visited: Vec<(usize, u32)>,
}

#[derive(Clone, Copy)]
pub struct Mark {
    emitted: usize,
    state: (u32, u64),
}

pub const STATE0: (u32, u64) = (0, 0xcbf29ce484222325u64);

impl<'a> World<'a> {
    pub fn new(toks: &'a [Tok], sw: Sw, probes: Probes) -> Self {
        World {
            toks,
            alt: None,
            emitted: Vec::new(),
            state: STATE0,
            sw,
            probes,
            unspecified: false,
            failed_without_alt: false,
            stats: Stats::default(),
            visited: Vec::new(),
        }
    }

    #[inline]
    pub fn mark(&self) -> Mark {
        Mark { emitted: self.emitted.len(), state: self.state }
    }

    /// Full rewind: discard emissions since the mark and restore the inspector.
    #[inline]
    pub fn rewind(&mut self, m: Mark) {
        if self.emitted.len() > m.emitted {
            self.stats.discarded_emissions += 1;
            self.emitted.truncate(m.emitted);
        }
        self.state = m.state;
    }

    /// Re-position only (inspector follows the position, emissions are kept).
    #[inline]
    pub fn rewind_input(&mut self, m: Mark) {
        self.state = m.state;
    }

    /// consume the token at `pos` (inspector sees it)
    #[inline]
    fn consume(&mut self, pos: usize) {
        let t = self.toks[pos];
        self.state = (self.state.0 + 1, track_step(self.state.1, t));
    }

    /// `add_alt` path: record an expected/found failure event filed under `pos`.
    pub fn add(&mut self, new: Alt) {
        self.alt = Some(match self.alt.take() {
            None => new,
            Some(mut old) => {
                if old.pos == new.pos {
                    self.stats.merges += 1;
                    if old.custom.is_none() {
                        old.exp.extend(new.exp);
                        if old.found.is_none() {
                            old.found = new.found;
                        }
                    }
                    old
                } else if old.pos > new.pos {
                    self.stats.ignored_earlier += 1;
                    old
                } else {
                    self.stats.replacements += 1;
                    new
                }
            }
        });
    }

    /// `add_alt_err` path: merge a complete error value filed under `new.pos`.
    pub fn add_err(&mut self, new: Alt) {
        self.alt = Some(match self.alt.take() {
            None => new,
            Some(mut old) => {
                if old.pos == new.pos {
                    self.stats.merges += 1;
                    if old.custom.is_none() {
                        if new.custom.is_some() {
                            old.custom = new.custom;
                            old.exp.clear();
                            old.found = None;
                        } else {
                            old.exp.extend(new.exp);
                        }
                    }
                    old
                } else if old.pos > new.pos {
                    self.stats.ignored_earlier += 1;
                    old
                } else {
                    self.stats.replacements += 1;
                    new
                }
            }
        });
    }

    fn tok_fail(&mut self, pos: usize, exp: &[Exp]) {
        let found = self.toks.get(pos).copied();
        let span = (pos, if found.is_some() { pos + 1 } else { pos });
        self.add(Alt {
            pos,
            span,
            found,
            found0: found,
            exp: exp.iter().cloned().collect(),
            custom: None,
            ctx: vec![],
        });
    }

    fn custom_err(&self, pos: usize, span: (usize, usize), msg: &str) -> Alt {
        Alt { pos, span, found: None, found0: None, exp: BTreeSet::new(), custom: Some(msg.to_string()), ctx: vec![] }
    }

    /// A failing parser always leaves a pending error.  Only an as-implemented switch
    /// (collect_exactly_no_alt) can break that; the model then records the fact and continues
    /// with an expectation-free error (the implementation panics or fabricates one there).
    fn take_alt_or_fake(&mut self, pos: usize) -> Alt {
        match self.alt.take() {
            Some(a) => a,
            None => {
                assert!(self.sw.0 != 0, "model: failure without a pending error");
                self.failed_without_alt = true;
                Alt { pos, span: (pos, pos), found: None, found0: None, exp: BTreeSet::new(), custom: None, ctx: vec![] }
            }
        }
    }

    fn visit(&mut self, g: &G, pos: usize) {
        self.stats.steps += 1;
        let key = (g as *const G as usize, pos as u32);
        if !self.visited.contains(&key) {
            self.visited.push(key);
            self.stats.states += 1;
        }
    }
}

pub type R = Option<(usize, Val)>;

fn bx(v: Val) -> Box<Val> {
    Box::new(v)
}

/// Evaluate `g` at `pos`; wraps the result in the probes that the harness attaches to every
/// node (`map_with` capturing span / state / context).
pub fn eval(g: &G, pos: usize, env: Env, w: &mut World) -> R {
    w.visit(g, pos);
    let (e, v) = eval0(g, pos, env, w)?;
    Some((e, probe(pos, e, env, w, v)))
}

fn probe(pos: usize, e: usize, env: Env, w: &mut World, v: Val) -> Val {
    let mut v = v;
    if w.probes.span {
        if pos == e {
            w.stats.empty_spans += 1;
        }
        v = Val::S(pos, e, bx(v));
    }
    if w.probes.state {
        v = Val::Q(w.state.0, w.state.1, bx(v));
    }
    if w.probes.ctx {
        v = Val::Cx(env.ctx, bx(v));
    }
    v
}

/// One `next()` step of a repetition. `Ok(Some)` item, `Ok(None)` finished, `Err` failure.
fn rep_next(item: &G, bd: &Bounds, count: usize, p: &mut usize, env: Env, w: &mut World) -> Result<Option<Val>, ()> {
    if let Some(m) = bd.max {
        if count >= m as usize {
            return Ok(None);
        }
    }
    let m = w.mark();
    match eval(item, *p, env, w) {
        Some((e, v)) => {
            *p = e;
            Ok(Some(v))
        }
        None => {
            w.rewind(m);
            if count >= bd.min as usize {
                Ok(None)
            } else {
                Err(())
            }
        }
    }
}

#[allow(clippy::too_many_arguments)]
fn sep_next(
    item: &G,
    sep: &G,
    bd: &Bounds,
    lead: bool,
    trail: bool,
    count: usize,
    p: &mut usize,
    env: Env,
    w: &mut World,
) -> Result<Option<Val>, ()> {
    if let Some(m) = bd.max {
        if count >= m as usize {
            // a trailing separator after the at_most-th item is left unconsumed by the code
            // although allow_trailing is set: unspecified corner, flagged only if a separator
            // is actually there
            if trail && count > 0 {
                let mk = w.mark();
                let (a, em, st) = (w.alt.clone(), w.emitted.clone(), w.stats.clone());
                if eval(sep, *p, env, w).is_some() {
                    w.unspecified = true;
                }
                w.rewind(mk);
                w.alt = a;
                w.emitted = em;
                w.stats = st;
            }
            return Ok(None);
        }
    }
    let before_sep = (*p, w.mark());
    let mut led = false;
    if count == 0 && lead {
        match eval(sep, *p, env, w) {
            Some((e, _)) => {
                *p = e;
                led = true;
            }
            None => w.rewind(before_sep.1),
        }
    } else if count > 0 {
        match eval(sep, *p, env, w) {
            Some((e, _)) => *p = e,
            None => {
                w.rewind(before_sep.1);
                *p = before_sep.0;
                return if count < bd.min as usize { Err(()) } else { Ok(None) };
            }
        }
    }
    let before_item = (*p, w.mark());
    match eval(item, *p, env, w) {
        Some((e, v)) => {
            *p = e;
            Ok(Some(v))
        }
        None => {
            if count < bd.min as usize {
                w.rewind(before_sep.1);
                *p = before_sep.0;
                return Err(());
            }
            if led {
                // leading separator accepted but zero items follow: the docs of allow_leading
                // and allow_trailing disagree about whether it is consumed
                w.unspecified = true;
            }
            if trail {
                w.rewind(before_item.1);
                *p = before_item.0;
            } else {
                w.rewind(before_sep.1);
                *p = before_sep.0;
            }
            Ok(None)
        }
    }
}

/// Drive an item iterator into a sink.
/// An iterable parser as the sinks see it: `make` = make_iter (runs once, before the first item; after the
/// initial parser of a left fold), `next` = one step.
trait ItM {
    fn make(&mut self, _p: &mut usize, _w: &mut World) -> Result<(), ()> {
        Ok(())
    }
    fn next(&mut self, n: usize, p: &mut usize, w: &mut World) -> Result<Option<Val>, ()>;
}
struct By<F>(F);
impl<F: FnMut(usize, &mut usize, &mut World) -> Result<Option<Val>, ()>> ItM for By<F> {
    fn next(&mut self, n: usize, p: &mut usize, w: &mut World) -> Result<Option<Val>, ()> {
        (self.0)(n, p, w)
    }
}
/// (pins the closure's signature so that it is inferred higher-ranked)
fn by<F: FnMut(usize, &mut usize, &mut World) -> Result<Option<Val>, ()>>(f: F) -> By<F> {
    By(f)
}

/// `IterParser for Then` over one or two links (a single link = that iterable itself).
struct Chain<'g> {
    parts: &'g [Part],
    env: Env,
    idx: usize,
    cnt: usize,
    items: Vec<Val>,
    /// context and bounds set up by the make_iter of a context-provider link
    inner: Option<(Env, Bounds)>,
}
impl<'g> Chain<'g> {
    fn start(&mut self, p: &mut usize, w: &mut World) -> Result<(), ()> {
        self.cnt = 0;
        if let Some(Part::Iter(a)) = self.parts.get(self.idx) {
            // make_iter of into_iter() runs the parser
            let (e, v) = eval(a, *p, self.env, w).ok_or(())?;
            *p = e;
            self.items = items_of(v);
        }
        if let Some(Part::Ctx(kind, a, _)) = self.parts.get(self.idx) {
            // make_iter of a context provider parses the provider, once, where the link starts
            let (e, v) = eval(a, *p, self.env, w).ok_or(())?;
            *p = e;
            let cx = ctx_of(&v);
            let n = count_u8(cx);
            let bd = match kind % 3 {
                0 => Bounds::STAR,
                1 => Bounds::new(0, Some(n)),
                _ => Bounds::new(n, Some(n)),
            };
            self.inner = Some((self.env.with_ctx(cx), bd));
        }
        Ok(())
    }
}
impl<'g> ItM for Chain<'g> {
    fn make(&mut self, p: &mut usize, w: &mut World) -> Result<(), ()> {
        self.idx = 0;
        self.start(p, w)
    }
    fn next(&mut self, _n: usize, p: &mut usize, w: &mut World) -> Result<Option<Val>, ()> {
        loop {
            let Some(part) = self.parts.get(self.idx) else { return Ok(None) };
            let r = match part {
                Part::Rep(item, bd) => rep_next(item, bd, self.cnt, p, self.env, w)?,
                Part::Sep(item, sep, bd, l, t) => sep_next(item, sep, bd, *l, *t, self.cnt, p, self.env, w)?,
                Part::Opt(a) => {
                    if self.cnt > 0 {
                        None
                    } else {
                        let m = w.mark();
                        match eval(a, *p, self.env, w) {
                            Some((e, v)) => {
                                *p = e;
                                Some(v)
                            }
                            None => {
                                w.rewind(m);
                                self.cnt = 1;
                                None
                            }
                        }
                    }
                }
                Part::Iter(_) => self.items.get(self.cnt).cloned(),
                Part::Ctx(_, _, item) => {
                    let (env, bd) = self.inner.expect("model: next before make_iter");
                    rep_next(item, &bd, self.cnt, p, env, w)?
                }
            };
            match r {
                Some(v) => {
                    self.cnt += 1;
                    return Ok(Some(v));
                }
                None => {
                    self.idx += 1;
                    if self.idx >= self.parts.len() {
                        return Ok(None);
                    }
                    self.start(p, w)?;
                }
            }
        }
    }
}

fn run_sink(sink: &Sink, pos: usize, env: Env, w: &mut World, it: &mut dyn ItM) -> R {
    let mut p = pos;
    if !matches!(sink, Sink::Foldl(_) | Sink::FoldlWith(_)) {
        it.make(&mut p, w).ok()?;
    }
    match sink {
        Sink::Vec | Sink::Count | Sink::Bare | Sink::Enumerate | Sink::Str => {
            let mut vs = vec![];
            loop {
                match it.next(vs.len(), &mut p, w) {
                    Ok(Some(v)) => vs.push(v),
                    Ok(None) => break,
                    Err(()) => return None,
                }
            }
            Some((
                p,
                match sink {
                    Sink::Vec => Val::L(vs),
                    Sink::Count => Val::N(vs.len()),
                    Sink::Bare => Val::U,
                    Sink::Str => Val::L(vs.iter().map(|v| Val::T(char_of(v))).collect()),
                    _ => Val::L(vs.into_iter().enumerate().map(|(i, v)| Val::P(bx(Val::N(i)), bx(v))).collect()),
                },
            ))
        }
        Sink::Exactly(n) => {
            let mut vs = vec![];
            for _ in 0..*n {
                match it.next(vs.len(), &mut p, w) {
                    Ok(Some(v)) => vs.push(v),
                    Ok(None) => {
                        // the iterator stopped without an item failure being the reason for
                        // our failure: an expectation-free event at the current position
                        if !w.sw.on(Sw::COLLECT_EXACTLY_NO_ALT) {
                            let found = w.toks.get(p).copied();
                            let span = (p, if found.is_some() { p + 1 } else { p });
                            w.add(Alt { pos: p, span, found, found0: found, exp: BTreeSet::new(), custom: None, ctx: vec![] });
                        }
                        return None;
                    }
                    Err(()) => return None,
                }
            }
            Some((p, Val::L(vs)))
        }
        Sink::Foldl(init) | Sink::FoldlWith(init) => {
            let (e, mut acc) = eval(init, pos, env, w)?;
            p = e;
            it.make(&mut p, w).ok()?;
            let mut n = 0;
            loop {
                match it.next(n, &mut p, w) {
                    Ok(Some(v)) => {
                        n += 1;
                        acc = Val::P(bx(acc), bx(v));
                        if matches!(sink, Sink::FoldlWith(_)) {
                            acc = Val::S(pos, p, bx(acc));
                        }
                    }
                    Ok(None) => break,
                    Err(()) => return None,
                }
            }
            Some((p, acc))
        }
        Sink::Foldr(init) | Sink::FoldrWith(init) => {
            let mut items = vec![];
            loop {
                let st = p;
                match it.next(items.len(), &mut p, w) {
                    Ok(Some(v)) => items.push((st, v)),
                    Ok(None) => break,
                    Err(()) => return None,
                }
            }
            let (e, mut acc) = eval(init, p, env, w)?;
            for (st, v) in items.into_iter().rev() {
                acc = Val::P(bx(v), bx(acc));
                if matches!(sink, Sink::FoldrWith(_)) {
                    acc = Val::S(st, e, bx(acc));
                }
            }
            Some((e, acc))
        }
    }
}

const ND_SKIP: &str = "()[]{}";

/// The body of `nested_delimiters('(', ')', [('[', ']'), ('{', '}')], ..)`: `block = ( '(' block ')' | '['
/// block ']' | '{' block '}' | any().and_is(none_of("()[]{}")) ).repeated()` — evaluated with the same rules as
/// the generic combinators.
fn nd_block(pos: usize, w: &mut World) -> usize {
    let mut p = pos;
    loop {
        let m = w.mark();
        let mut matched = None;
        for (o, c) in [('(', ')'), ('[', ']'), ('{', '}')] {
            // block.delimited_by(just(o), just(c))
            if w.toks.get(p) == Some(&o) {
                w.consume(p);
                let q = nd_block(p + 1, w);
                if w.toks.get(q) == Some(&c) {
                    w.consume(q);
                    matched = Some(q + 1);
                    break;
                } else {
                    w.tok_fail(q, &[Exp::Tok(c)]);
                }
            } else {
                w.tok_fail(p, &[Exp::Tok(o)]);
            }
            w.rewind(m);
        }
        if matched.is_none() {
            // any().and_is(none_of(skip)).ignored()
            match w.toks.get(p) {
                None => w.tok_fail(p, &[Exp::Any]),
                Some(t) => {
                    if ND_SKIP.contains(*t) {
                        w.tok_fail(p, &[Exp::SomethingElse]);
                    } else {
                        w.consume(p);
                        matched = Some(p + 1);
                    }
                }
            }
        }
        match matched {
            Some(q) => p = q,
            None => {
                w.rewind(m);
                return p;
            }
        }
    }
}

fn nd_eval(pos: usize, w: &mut World) -> Option<usize> {
    if w.toks.get(pos) != Some(&'(') {
        w.tok_fail(pos, &[Exp::Tok('(')]);
        return None;
    }
    w.consume(pos);
    let q = nd_block(pos + 1, w);
    if w.toks.get(q) != Some(&')') {
        w.tok_fail(q, &[Exp::Tok(')')]);
        return None;
    }
    w.consume(q);
    Some(q + 1)
}

fn eval0(g: &G, pos: usize, env: Env, w: &mut World) -> R {
    let t = w.toks;
    match g {
        Just(c) => {
            if t.get(pos) == Some(c) {
                w.consume(pos);
                Some((pos + 1, Val::T(*c)))
            } else {
                w.tok_fail(pos, &[Exp::Tok(*c)]);
                None
            }
        }
        JustCtx => {
            let c = env.ctx;
            if t.get(pos) == Some(&c) {
                w.consume(pos);
                Some((pos + 1, Val::T(c)))
            } else {
                w.tok_fail(pos, &[Exp::Tok(c)]);
                None
            }
        }
        JustSeq(a, c) => {
            if t.get(pos) != Some(a) {
                w.tok_fail(pos, &[Exp::Tok(*a)]);
                return None;
            }
            w.consume(pos);
            if t.get(pos + 1) != Some(c) {
                w.tok_fail(pos + 1, &[Exp::Tok(*c)]);
                return None;
            }
            w.consume(pos + 1);
            Some((pos + 2, Val::P(bx(Val::T(*a)), bx(Val::T(*c)))))
        }
        Any | AnyRef => match t.get(pos) {
            Some(c) => {
                w.consume(pos);
                Some((pos + 1, Val::T(*c)))
            }
            None => {
                w.tok_fail(pos, &[Exp::Any]);
                None
            }
        },
        OneOf(s) => match t.get(pos) {
            Some(c) if s.contains(*c) => {
                w.consume(pos);
                Some((pos + 1, Val::T(*c)))
            }
            _ => {
                let exp: Vec<Exp> = s.chars().map(Exp::Tok).collect();
                w.tok_fail(pos, &exp);
                None
            }
        },
        NoneOf(s) => match t.get(pos) {
            Some(c) if !s.contains(*c) => {
                w.consume(pos);
                Some((pos + 1, Val::T(*c)))
            }
            _ => {
                w.tok_fail(pos, &[Exp::SomethingElse]);
                None
            }
        },
        Select(s) | SelectRef(s) => match t.get(pos) {
            Some(c) if s.contains(*c) => {
                w.consume(pos);
                let v = Val::Tag(*c);
                // the select closure itself observes the state (C18)
                Some((pos + 1, if w.probes.state { Val::Q(w.state.0, w.state.1, bx(v)) } else { v }))
            }
            _ => {
                w.tok_fail(pos, &[Exp::SomethingElse]);
                None
            }
        },
        End => {
            if pos == t.len() {
                Some((pos, Val::U))
            } else {
                w.tok_fail(pos, &[Exp::End]);
                None
            }
        }
        Empty => Some((pos, Val::U)),
        Custom(k, ok) => {
            let mut p = pos;
            // k >= 10: the same parser written with peek() + skip() instead of next()
            for _ in 0..(*k % 10) {
                if p < t.len() {
                    w.consume(p);
                    p += 1;
                } else {
                    let e = w.custom_err(pos, (pos, p), "CU");
                    w.add_err(e);
                    return None;
                }
            }
            if *ok {
                Some((p, Val::N(*k as usize)))
            } else {
                let e = w.custom_err(pos, (pos, p), "CU");
                w.add_err(e);
                None
            }
        }
        EmptyChoice => {
            w.add(Alt { pos, span: (pos, pos), found: None, found0: None, exp: BTreeSet::new(), custom: None, ctx: vec![] });
            None
        }
        Map(a) => {
            let (e, v) = eval(a, pos, env, w)?;
            Some((e, Val::M(bx(v))))
        }
        To(a) => {
            let (e, _) = eval(a, pos, env, w)?;
            Some((e, Val::Z))
        }
        Ignored(a) => {
            let (e, _) = eval(a, pos, env, w)?;
            Some((e, Val::U))
        }
        Padded(a) => {
            // skip_while: every skipped token is consumed (and seen by the inspector); no failure event
            let mut p = pos;
            while p < t.len() && t[p].is_whitespace() {
                w.consume(p);
                p += 1;
            }
            let (mut e, v) = eval(a, p, env, w)?;
            while e < t.len() && t[e].is_whitespace() {
                w.consume(e);
                e += 1;
            }
            Some((e, v))
        }
        Boxed(a) | Memo(a) => {
            let (e, v) = eval(a, pos, env, w)?;
            Some((e, v))
        }
        ToSlice(a) | SliceWith(a) => {
            let (e, _) = eval(a, pos, env, w)?;
            Some((e, Val::Sl(pos, t[pos..e].iter().collect())))
        }
        ToSpan(a) | SpanWith(a) | TryMapSpan(a) => {
            let (e, _) = eval(a, pos, env, w)?;
            Some((e, Val::Sp(pos, e)))
        }
        Snd(a) => {
            let (e, v) = eval(a, pos, env, w)?;
            Some((e, snd_of(v)))
        }
        Fst(a) => {
            let (e, v) = eval(a, pos, env, w)?;
            Some((e, fst_of(v)))
        }
        Mid(a) => {
            let (e, v) = eval(a, pos, env, w)?;
            Some((e, mid_of(v)))
        }
        MapUnit(a) => {
            let (e, _) = eval(a, pos, env, w)?;
            Some((e, Val::U))
        }
        MapZ(a) => {
            let (e, _) = eval(a, pos, env, w)?;
            Some((e, Val::Z))
        }
        Let(def, body) => eval(body, pos, Env { let_def: &**def as *const G, ..env }, w),
        Var => {
            assert!(!env.let_def.is_null(), "model: var outside let");
            // SAFETY: points into the grammar tree being evaluated, which outlives this call
            let def: &G = unsafe { &*env.let_def };
            eval(def, pos, Env { let_def: std::ptr::null(), ..env }, w)
        }
        Rec(body, _) => {
            // native recursion of the evaluator = the grammar unrolled as deep as the input requires
            let inner = Env { rec: [&**body as *const G, env.rec[0]], ..env };
            eval(body, pos, inner, w)
        }
        RecRef(k) => {
            let body = env.rec[*k as usize];
            assert!(!body.is_null(), "model: rec_ref outside rec");
            // SAFETY: points into the grammar tree being evaluated, which outlives this call
            let body: &G = unsafe { &*body };
            let inner = if *k == 0 { env } else { Env { rec: [env.rec[1], std::ptr::null()], ..env } };
            eval(body, pos, inner, w)
        }
        Ext(a, _) | CustomNest(a) => {
            // `inp.parse(&inner)` takes the WHOLE pending error on failure and hands it to the caller as
            // a value; Ext / custom then file it under their own start position
            match eval(a, pos, env, w) {
                Some((e, v)) => Some((e, Val::M(bx(v)))),
                None => {
                    let mut alt = w.take_alt_or_fake(pos);
                    alt.pos = pos;
                    w.add_err(alt);
                    None
                }
            }
        }
        Lazy(a) => {
            // a.then_ignore(any().repeated())
            let (e, v) = eval(a, pos, env, w)?;
            for p in e..t.len() {
                w.consume(p);
            }
            w.tok_fail(t.len(), &[Exp::Any]);
            Some((t.len(), v))
        }
        Filter(a) => {
            let (e, v) = eval(a, pos, env, w)?;
            if pred(&v) {
                Some((e, v))
            } else {
                // pinned: filed under the END of the rejected match, span = the match,
                // found = the token at the start of the span (C06)
                let found = if w.sw.on(Sw::FILTER_FOUND_NONE) { None } else { t.get(pos).copied() };
                w.add(Alt { pos: e, span: (pos, e), found, found0: found, exp: [Exp::SomethingElse].into_iter().collect(), custom: None, ctx: vec![] });
                None
            }
        }
        TryMap(a) => {
            let old = w.alt.take();
            let r = eval(a, pos, env, w);
            match r {
                None => {
                    if !w.sw.on(Sw::TRY_MAP_DROPS_ALT_ON_INNER_FAIL) {
                        let new = w.alt.take();
                        w.alt = old;
                        if let Some(n) = new {
                            w.add_err(n);
                        }
                    }
                    None
                }
                Some((e, v)) => {
                    let new = w.alt.take();
                    w.alt = old;
                    if pred(&v) {
                        if let Some(mut n) = new {
                            if w.sw.on(Sw::TRY_MAP_REHOMES_ON_OK) {
                                n.pos = pos;
                            }
                            w.add_err(n);
                        }
                        Some((e, v))
                    } else {
                        let err = w.custom_err(pos, (pos, e), "TM");
                        w.add_err(err);
                        None
                    }
                }
            }
        }
        TryMapWith(a) => {
            let (e, v) = eval(a, pos, env, w)?;
            if pred(&v) {
                Some((e, v))
            } else {
                let err = w.custom_err(e, (pos, e), "TW");
                w.add_err(err);
                None
            }
        }
        StGuard(a) => {
            let (e, v) = eval(a, pos, env, w)?;
            // the state a closure sees is the fold over the tokens before the cursor (of the current with_state scope)
            if w.state.0 % 2 == 0 {
                Some((e, v))
            } else {
                let err = w.custom_err(e, (pos, e), "SG");
                w.add_err(err);
                None
            }
        }
        OrNot(a) => {
            let m = w.mark();
            match eval(a, pos, env, w) {
                Some((e, v)) => Some((e, Val::O(Some(bx(v))))),
                None => {
                    w.rewind(m);
                    Some((pos, Val::O(None)))
                }
            }
        }
        Not(a) => {
            // error bookkeeping of `not` is pinned (as implemented), see DESIGN.md section 2
            let m = w.mark();
            let old = w.alt.take();
            let r = eval(a, pos, env, w);
            w.rewind(m);
            w.alt = old;
            match r {
                Some((e, _)) => {
                    let found = t.get(pos).copied();
                    let at = if found.is_some() { pos + 1 } else { pos };
                    w.add(Alt { pos: at, span: (pos, e), found, found0: found, exp: [Exp::SomethingElse].into_iter().collect(), custom: None, ctx: vec![] });
                    None
                }
                None => Some((pos, Val::U)),
            }
        }
        Rewind(a) => {
            let m = w.mark();
            let (_, v) = eval(a, pos, env, w)?;
            if w.sw.on(Sw::REWIND_TRUNCATES_EMISSIONS) {
                w.rewind(m);
            } else {
                w.rewind_input(m);
            }
            Some((pos, v))
        }
        Validate(a, id) => {
            let (e, v) = eval(a, pos, env, w)?;
            let err = w.custom_err(pos, (pos, e), &format!("V{id}"));
            w.emitted.push(err);
            Some((e, v))
        }
        Labelled(a, is_ctx) => {
            let old = w.alt.take();
            let n0 = w.emitted.len();
            let r = eval(a, pos, env, w);
            let new = w.alt.take();
            w.alt = old;
            if let Some(mut n) = new {
                if n.pos == pos {
                    n.exp = [Exp::Label("L".into())].into_iter().collect();
                    if n.custom.is_some() {
                        n.custom = None;
                        n.found = None;
                    }
                } else if *is_ctx && n.pos > pos && !n.ctx.iter().any(|(l, _)| l == "L") {
                    n.ctx.push(("L".into(), (pos, n.pos)));
                }
                w.add_err(n);
            }
            if *is_ctx {
                let n0 = n0.min(w.emitted.len());
                for e in w.emitted[n0..].iter_mut() {
                    if !e.ctx.iter().any(|(l, _)| l == "L") {
                        e.ctx.push(("L".into(), (pos, e.pos)));
                    }
                }
            }
            r
        }
        MapErr(a) => {
            let old = w.alt.take();
            let r = eval(a, pos, env, w);
            if r.is_none() {
                let mut n = w.take_alt_or_fake(pos);
                if n.custom.is_none() {
                    n.exp.insert(Exp::Label("M".into()));
                }
                w.alt = old;
                w.add_err(n);
            } else if !w.sw.on(Sw::MAP_ERR_DROPS_ALT_ON_OK) {
                let new = w.alt.take();
                w.alt = old;
                if let Some(n) = new {
                    w.add_err(n);
                }
            }
            r
        }
        WithState(a) => {
            let outer = w.state;
            w.state = STATE0;
            let r = eval(a, pos, env, w);
            w.state = outer;
            r
        }
        Rep(item, bd, sink) => run_sink(sink, pos, env, w, &mut by(|n, p, w| rep_next(item, bd, n, p, env, w))),
        RepCtx(item) => {
            let n = count_u8(env.ctx);
            let bd = Bounds::new(n, Some(n));
            run_sink(&Sink::Vec, pos, env, w, &mut by(|k, p, w| rep_next(item, &bd, k, p, env, w)))
        }
        RepCtxMax(item) => {
            let n = count_u8(env.ctx);
            let bd = Bounds::new(0, Some(n));
            run_sink(&Sink::Vec, pos, env, w, &mut by(|k, p, w| rep_next(item, &bd, k, p, env, w)))
        }
        TryRepCtx(item) => {
            if env.ctx == 'c' {
                let err = w.custom_err(pos, (pos, pos), "TC");
                w.add_err(err);
                return None;
            }
            let n = count_u8(env.ctx);
            let bd = Bounds::new(n, Some(n));
            run_sink(&Sink::Vec, pos, env, w, &mut by(|k, p, w| rep_next(item, &bd, k, p, env, w)))
        }
        CtxBare(kind, item) => {
            if *kind % 3 == 2 && env.ctx == 'c' {
                let err = w.custom_err(pos, (pos, pos), "TC");
                w.add_err(err);
                return None;
            }
            let n = count_u8(env.ctx);
            let bd = if *kind % 3 == 1 { Bounds::new(0, Some(n)) } else { Bounds::new(n, Some(n)) };
            let sink = if *kind < 3 { Sink::Bare } else { Sink::Count };
            run_sink(&sink, pos, env, w, &mut by(|k, p, w| rep_next(item, &bd, k, p, env, w)))
        }
        RepCtxPre(item, st, kind) => {
            let n = count_u8(env.ctx);
            let (mn, mx) = pre_effective(st, *kind, n);
            if let Some(m) = mx {
                if mn > m {
                    // contradictory effective bounds: the statement gives them no meaning
                    w.unspecified = true;
                }
            }
            let bd = Bounds::new(mn, mx);
            run_sink(&Sink::Vec, pos, env, w, &mut by(|k, p, w| rep_next(item, &bd, k, p, env, w)))
        }
        IntoIter(a, sink) => {
            // make_iter runs the parser (also when no item is asked for); the items themselves consume nothing
            match sink {
                Sink::Foldl(init) | Sink::FoldlWith(init) => {
                    // foldl runs its initial parser first, then builds the iterator
                    let (e0, mut acc) = eval(init, pos, env, w)?;
                    let (e, v) = eval(a, e0, env, w)?;
                    for it in items_of(v) {
                        acc = Val::P(bx(acc), bx(it));
                        if matches!(sink, Sink::FoldlWith(_)) {
                            acc = Val::S(pos, e, bx(acc));
                        }
                    }
                    Some((e, acc))
                }
                _ => {
                    let (e, v) = eval(a, pos, env, w)?;
                    let items = items_of(v);
                    run_sink(sink, e, env, w, &mut by(|k, _p, _w| Ok(items.get(k).cloned())))
                }
            }
        }
        CtxIter(kind, a, item, sink) => {
            struct CtxIt<'g> {
                kind: u8,
                a: &'g G,
                item: &'g G,
                env: Env,
                inner: Option<(Env, Bounds)>,
            }
            impl<'g> ItM for CtxIt<'g> {
                fn make(&mut self, p: &mut usize, w: &mut World) -> Result<(), ()> {
                    // make_iter runs the provider; its output is the context of every item
                    let (e, v) = eval(self.a, *p, self.env, w).ok_or(())?;
                    *p = e;
                    let cx = ctx_of(&v);
                    let n = count_u8(cx);
                    let bd = match self.kind % 3 {
                        0 => Bounds::STAR,
                        1 => Bounds::new(0, Some(n)),
                        _ => Bounds::new(n, Some(n)),
                    };
                    self.inner = Some((self.env.with_ctx(cx), bd));
                    Ok(())
                }
                fn next(&mut self, n: usize, p: &mut usize, w: &mut World) -> Result<Option<Val>, ()> {
                    let (env, bd) = self.inner.expect("model: next before make_iter");
                    rep_next(self.item, &bd, n, p, env, w)
                }
            }
            let mut it = CtxIt { kind: *kind, a, item, env, inner: None };
            run_sink(sink, pos, env, w, &mut it)
        }
        IterChain(parts, sink) => {
            let mut ch = Chain { parts, env, idx: 0, cnt: 0, items: vec![], inner: None };
            run_sink(sink, pos, env, w, &mut ch)
        }
        SepBy(item, sep, bd, lead, trail, sink) => {
            run_sink(sink, pos, env, w, &mut by(|n, p, w| sep_next(item, sep, bd, *lead, *trail, n, p, env, w)))
        }
        Then(a, c) => {
            let (e1, v1) = eval(a, pos, env, w)?;
            let (e2, v2) = eval(c, e1, env, w)?;
            Some((e2, Val::P(bx(v1), bx(v2))))
        }
        IgnoreThen(a, c) => {
            let (e1, _) = eval(a, pos, env, w)?;
            let (e2, v2) = eval(c, e1, env, w)?;
            Some((e2, v2))
        }
        ThenIgnore(a, c) => {
            let (e1, v1) = eval(a, pos, env, w)?;
            let (e2, _) = eval(c, e1, env, w)?;
            Some((e2, v1))
        }
        PaddedBy(a, p) => {
            let (e0, _) = eval(p, pos, env, w)?;
            let (e1, v) = eval(a, e0, env, w)?;
            let (e2, _) = eval(p, e1, env, w)?;
            Some((e2, v))
        }
        DelimitedBy(a, o, c) => {
            let (e0, _) = eval(o, pos, env, w)?;
            let (e1, v) = eval(a, e0, env, w)?;
            let (e2, _) = eval(c, e1, env, w)?;
            Some((e2, v))
        }
        Group(_, v) => {
            let mut p = pos;
            let mut out = vec![];
            for x in v {
                let (e, val) = eval(x, p, env, w)?;
                p = e;
                out.push(val);
            }
            Some((p, Val::L(out)))
        }
        Or(a, c) => {
            let m = w.mark();
            for x in [a, c] {
                match eval(x, pos, env, w) {
                    Some(r) => return Some(r),
                    None => {
                        w.stats.backtracks += 1;
                        w.rewind(m);
                    }
                }
            }
            None
        }
        Choice(_, v) => {
            if v.is_empty() {
                w.add(Alt { pos, span: (pos, pos), found: None, found0: None, exp: BTreeSet::new(), custom: None, ctx: vec![] });
                return None;
            }
            let m = w.mark();
            for x in v {
                match eval(x, pos, env, w) {
                    Some(r) => return Some(r),
                    None => {
                        w.stats.backtracks += 1;
                        w.rewind(m);
                    }
                }
            }
            None
        }
        AndIs(a, c) => {
            let m0 = w.mark();
            let (e, v) = match eval(a, pos, env, w) {
                Some(r) => r,
                None => {
                    w.rewind(m0);
                    return None;
                }
            };
            let m1 = w.mark();
            if w.sw.on(Sw::AND_IS_TRUNCATES_EMISSIONS) {
                w.rewind(m0);
            } else {
                w.rewind_input(m0);
            }
            match eval(c, pos, env, w) {
                Some(_) => {
                    if w.sw.on(Sw::AND_IS_TRUNCATES_EMISSIONS) {
                        w.rewind(m1);
                    } else {
                        w.rewind_input(m1);
                    }
                    Some((e, v))
                }
                None => {
                    w.rewind(m0);
                    None
                }
            }
        }
        Recover(a, f) => {
            let m0 = w.mark();
            if let Some(r) = eval(a, pos, env, w) {
                return Some(r);
            }
            w.rewind(m0);
            let alt = w.take_alt_or_fake(pos);
            match eval(f, pos, env, w) {
                Some((e, v)) => {
                    let mut a2 = alt;
                    a2.pos = e;
                    w.emitted.push(a2);
                    w.stats.recoveries += 1;
                    Some((e, Val::M(bx(v))))
                }
                None => {
                    w.alt = Some(alt);
                    w.rewind(m0);
                    None
                }
            }
        }
        NestedDelims(a) => {
            let m0 = w.mark();
            if let Some(r) = eval(a, pos, env, w) {
                return Some(r);
            }
            w.rewind(m0);
            let alt = w.take_alt_or_fake(pos);
            match nd_eval(pos, w) {
                Some(e) => {
                    let mut a2 = alt;
                    a2.pos = e;
                    w.emitted.push(a2);
                    w.stats.recoveries += 1;
                    Some((e, Val::M(bx(Val::Sp(pos, e)))))
                }
                None => {
                    w.alt = Some(alt);
                    w.rewind(m0);
                    None
                }
            }
        }
        SkipUntil(a, skip, until) => {
            let m0 = w.mark();
            if let Some(r) = eval(a, pos, env, w) {
                return Some(r);
            }
            w.rewind(m0);
            let alt = w.take_alt_or_fake(pos);
            let mut p = pos;
            loop {
                let m1 = w.mark();
                if let Some((e, _)) = eval(until, p, env, w) {
                    let mut a2 = alt;
                    a2.pos = e;
                    w.emitted.push(a2);
                    w.stats.recoveries += 1;
                    return Some((e, Val::F));
                }
                w.rewind(m1);
                match eval(skip, p, env, w) {
                    Some((e, _)) => {
                        if e == p {
                            // a skip step that consumes nothing would loop forever; the
                            // enumerators never generate it
                            panic!("model: non-consuming skip step");
                        }
                        p = e
                    }
                    None => {
                        w.alt = Some(alt);
                        w.rewind(m0);
                        return None;
                    }
                }
            }
        }
        Retry(a, skip, until) => {
            let m0 = w.mark();
            if let Some(r) = eval(a, pos, env, w) {
                return Some(r);
            }
            w.rewind(m0);
            let alt = w.take_alt_or_fake(pos);
            let mut p = pos;
            loop {
                let m1 = w.mark();
                let u = eval(until, p, env, w);
                w.rewind(m1);
                if u.is_some() {
                    w.alt = Some(alt);
                    w.rewind(m0);
                    return None;
                }
                match eval(skip, p, env, w) {
                    Some((e, _)) => {
                        if e == p {
                            panic!("model: non-consuming skip step");
                        }
                        p = e
                    }
                    None => {
                        w.alt = Some(alt);
                        w.rewind(m0);
                        return None;
                    }
                }
                let m2 = w.mark();
                match eval(a, p, env, w) {
                    Some((e, v)) if w.emitted.len() == m2.emitted => {
                        let mut a2 = alt;
                        a2.pos = e;
                        w.emitted.push(a2);
                        w.stats.recoveries += 1;
                        return Some((e, v));
                    }
                    _ => {
                        w.alt = None;
                        w.rewind(m2);
                    }
                }
            }
        }
        WithCtx(c, a) => eval(a, pos, env.with_ctx(*c), w),
        MapCtx(a) => eval(a, pos, env.with_ctx(succ(env.ctx)), w),
        ThenWithCtx(a, c) => {
            let (e1, v1) = eval(a, pos, env, w)?;
            let cx = ctx_of(&v1);
            let (e2, v2) = eval(c, e1, env.with_ctx(cx), w)?;
            Some((e2, Val::P(bx(Val::T(cx)), bx(v2))))
        }
        IgnoreWithCtx(a, c) => {
            let (e1, v1) = eval(a, pos, env, w)?;
            let cx = ctx_of(&v1);
            let (e2, v2) = eval(c, e1, env.with_ctx(cx), w)?;
            Some((e2, v2))
        }
    }
}

/// What a complete `parse()` of grammar `g` on `toks` must report.
#[derive(Clone, Debug, PartialEq)]
pub struct Outcome {
    pub output: Option<Val>,
    /// on success: the emissions of the surviving path, in order.
    /// on failure: the emissions left at the time of failure (NOT compared, see DESIGN §2)
    pub emitted: Vec<Alt>,
    /// on failure: the primary error
    pub primary: Option<Alt>,
    /// how much the grammar itself consumed (before the implicit `end()`), if it matched
    pub matched_prefix: Option<usize>,
    pub final_state: (u32, u64),
    pub unspecified: bool,
    /// only possible with an as-implemented switch on: a parser failed without leaving an error,
    /// so the reported error is whatever the top level fabricates (not compared)
    pub failed_without_alt: bool,
    /// the grammar contains no backtracking construct (see `G::is_straight_line`)
    pub straight_line: bool,
}

pub const CTX0: Tok = '\0';

/// `parse(g, toks)` = `g.then_ignore(end())`.
pub fn parse(g: &G, toks: &[Tok], sw: Sw, probes: Probes) -> (Outcome, Stats) {
    let mut w = World::new(toks, sw, probes);
    let env = Env::new(CTX0);
    let r = eval(g, 0, env, &mut w);
    let matched_prefix = r.as_ref().map(|(e, _)| *e);
    let output = match r {
        Some((e, v)) => {
            if e == toks.len() {
                Some(v)
            } else {
                w.tok_fail(e, &[Exp::End]);
                None
            }
        }
        None => None,
    };
    let primary = if output.is_none() { Some(w.take_alt_or_fake(0)) } else { None };
    if w.unspecified {
        w.stats.unspecified += 1;
    }
    (
        Outcome { output, emitted: w.emitted.clone(), primary, matched_prefix, final_state: w.state, unspecified: w.unspecified, failed_without_alt: w.failed_without_alt, straight_line: g.is_straight_line() },
        w.stats,
    )
}

/// `g.lazy().parse(toks)`: accepts iff `g` matches a prefix.
pub fn parse_lazy(g: &G, toks: &[Tok], sw: Sw, probes: Probes) -> Option<(usize, Val)> {
    let mut w = World::new(toks, sw, probes);
    eval(g, 0, Env::new(CTX0), &mut w)
}
