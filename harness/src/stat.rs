//! Helpers used by the generated statically typed parsers (crate `cvh-static`): the same user
//! functions as the boxed interpreter uses, as named functions.

use crate::e1::RawObs;
use crate::interp::{CRich, ErrK, Ex};
use chumsky::error::Rich;
use chumsky::input::{Emitter, InputRef, MapExtra};
use chumsky::prelude::*;
use cvm::ast::Val;

pub type SE<'a> = Ex<'a, &'a str, CRich>;

fn bx(v: Val) -> Box<Val> {
    Box::new(v)
}
pub fn tv(c: char) -> Val {
    Val::T(c)
}
pub fn seq2<const A: char, const C: char>(_: [char; 2]) -> Val {
    Val::P(bx(Val::T(A)), bx(Val::T(C)))
}
pub fn unit<T>(_: T) -> Val {
    Val::U
}
pub fn wrap(v: Val) -> Val {
    Val::M(bx(v))
}
pub fn opt(o: Option<Val>) -> Val {
    Val::O(o.map(bx))
}
pub fn pair((a, b): (Val, Val)) -> Val {
    Val::P(bx(a), bx(b))
}
pub fn list(v: Vec<Val>) -> Val {
    Val::L(v)
}
pub fn items(v: Val) -> Vec<Val> {
    cvm::ast::items_of(v)
}
pub fn cnt(n: usize) -> Val {
    Val::N(n)
}
pub fn arr<const N: usize>(a: [Val; N]) -> Val {
    Val::L(a.into())
}
pub fn enumd(v: Vec<(usize, Val)>) -> Val {
    Val::L(v.into_iter().map(|(i, x)| Val::P(bx(Val::N(i)), bx(x))).collect())
}
pub fn tup2((a, b): (Val, Val)) -> Val {
    Val::L(vec![a, b])
}
pub fn tup3((a, b, c): (Val, Val, Val)) -> Val {
    Val::L(vec![a, b, c])
}
pub fn fold_l(acc: Val, x: Val) -> Val {
    Val::P(bx(acc), bx(x))
}
pub fn fold_r(x: Val, acc: Val) -> Val {
    Val::P(bx(x), bx(acc))
}
pub fn sprobe<'a, 'b>(v: Val, e: &mut MapExtra<'a, 'b, &'a str, SE<'a>>) -> Val {
    let s: SimpleSpan = e.span();
    Val::S(s.start, s.end, bx(v))
}
pub fn tm<'a>(v: Val, span: SimpleSpan) -> Result<Val, Rich<'a, char>> {
    if cvm::ast::pred(&v) {
        Ok(v)
    } else {
        Err(Rich::custom(span, "TM"))
    }
}
pub fn val_emit<'a, 'b, const ID: u8>(v: Val, e: &mut MapExtra<'a, 'b, &'a str, SE<'a>>, em: &mut Emitter<Rich<'a, char>>) -> Val {
    em.emit(Rich::custom(e.span(), format!("V{ID}")));
    v
}
pub fn tag_err<'a>(e: Rich<'a, char>) -> Rich<'a, char> {
    <Rich<'a, char> as ErrK<'a, &'a str>>::tag(e)
}
pub fn cust<'a, 'b, const K: u8, const OK: bool>(inp: &mut InputRef<'a, 'b, &'a str, SE<'a>>) -> Result<Val, Rich<'a, char>> {
    let before = inp.cursor();
    for _ in 0..(K % 10) {
        if K >= 10 {
            if inp.peek().is_none() {
                return Err(Rich::custom(inp.span_since(&before), "CU"));
            }
            inp.skip();
        } else if inp.next().is_none() {
            return Err(Rich::custom(inp.span_since(&before), "CU"));
        }
    }
    if OK {
        Ok(Val::N(K as usize))
    } else {
        Err(Rich::custom(inp.span_since(&before), "CU"))
    }
}

/// run one statically typed parser on one input (parse, check, optional lazy), like `e1::run_case`
pub fn run<'a, P>(p: &P, s: &'a str, lazy: bool) -> RawObs
where
    P: Parser<'a, &'a str, Val, SE<'a>> + Clone,
{
    crate::e1::run_case::<&'a str, CRich, P>(p, &|| s, lazy)
}

pub type CaseFn = for<'a> fn(&'a str, bool) -> RawObs;
