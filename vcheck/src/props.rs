//! Property registry: which units decide which property at which tier.

use cvh::e1::*;
use cvh::unit::*;
use cvm::ast::*;
use cvm::enumerate as en;
use cvm::sem::Probes;

pub enum Unit {
    E1(E1Unit),
    Custom { name: String, run: Box<dyn Fn(&ShardCtx) -> UnitResult + Send + Sync> },
}

impl Unit {
    pub fn name(&self) -> &str {
        match self {
            Unit::E1(u) => &u.name,
            Unit::Custom { name, .. } => name,
        }
    }
    pub fn run(&self, cx: &ShardCtx) -> UnitResult {
        match self {
            Unit::E1(u) => run_e1_unit(u, cx),
            Unit::Custom { run, .. } => run(cx),
        }
    }
}

pub const ABC: [Tok; 3] = ['a', 'b', 'c'];
const SPAN: Probes = Probes { span: true, state: false, ctx: false };
const NOPROBE: Probes = Probes { span: false, state: false, ctx: false };

#[allow(clippy::too_many_arguments)]
fn e1(name: &str, class: &en::Class, n: usize, len: usize, kind: KindId, cfg: CfgId, probes: Probes, alarm: u32) -> Unit {
    Unit::E1(E1Unit {
        name: name.to_string(),
        grammars: class.upto(n),
        class_desc: format!("class {} with <= {} nodes", class.name, n),
        alphabet: ABC.to_vec(),
        max_len: len,
        kind,
        cfg,
        probes,
        alarm,
        skip_not_content: true,
    })
}

pub const ALL_PROPS: &[&str] = &["C01"];

pub fn units(prop: &str, tier: Tier) -> Option<Vec<Unit>> {
    let q = tier == Tier::Quick;
    Some(match prop {
        "C01" => {
            // acceptance, output value, per-node extents == PEG reading
            let alarm = ACC | VAL | EXT;
            let k = en::k01();
            let mut v = vec![
                e1("k01-str", &k, if q { 4 } else { 5 }, if q { 4 } else { 5 }, KindId::Str, CfgId::Rich, SPAN, alarm),
                e1("k01-str-multibyte", &k, if q { 3 } else { 4 }, 4, KindId::StrMb, CfgId::Rich, SPAN, alarm),
                e1("k01-slice", &k, if q { 3 } else { 4 }, 4, KindId::Slice, CfgId::Rich, SPAN, alarm),
            ];
            if !q {
                v.push(e1("kcore-deep", &en::k_core(), 6, 4, KindId::Str, CfgId::Rich, SPAN, alarm));
            }
            v
        }
        _ => return None,
    })
}

#[allow(dead_code)]
fn _unused() {
    let _ = NOPROBE;
}
