//! AST -> Rust source of the *statically typed* chumsky parser (no `.boxed()` anywhere unless the
//! grammar says so).  The generated expression has type `impl Parser<'a, &'a str, Val, SE<'a>>`;
//! every closure is a named helper from `cvh::stat`, so the same user functions as in the boxed
//! interpreter are used.  Returns None for nodes that have no statically typed rendering here.

use crate::ast::*;

fn ch(c: char) -> String {
    format!("{:?}", c)
}

fn bounds(bd: &Bounds) -> Option<String> {
    if bd.cfg {
        return None;
    }
    let mut s = String::new();
    if bd.exactly {
        s += &format!(".exactly({})", bd.min);
    } else {
        if bd.min > 0 {
            s += &format!(".at_least({})", bd.min);
        }
        if let Some(m) = bd.max {
            s += &format!(".at_most({})", m);
        }
    }
    Some(s)
}

fn sink(p: String, s: &Sink, probes: bool) -> Option<String> {
    Some(match s {
        Sink::Vec => format!("{p}.collect::<Vec<Val>>().map(st::list)"),
        Sink::Count => format!("{p}.count().map(st::cnt)"),
        Sink::Bare => format!("chumsky::Parser::map({p}, st::unit)"),
        Sink::Exactly(n) if *n <= 3 => format!("{p}.collect_exactly::<[Val; {n}]>().map(st::arr::<{n}>)"),
        Sink::Enumerate => format!("{p}.enumerate().collect::<Vec<(usize, Val)>>().map(st::enumd)"),
        Sink::Foldl(i) => format!("({}).foldl({p}, st::fold_l)", expr(i, probes)?),
        Sink::Foldr(i) => format!("{p}.foldr({}, st::fold_r)", expr(i, probes)?),
        _ => return None,
    })
}

/// the parser expression for `g`, each node wrapped in the span probe when `probes`
pub fn expr(g: &G, probes: bool) -> Option<String> {
    let e = expr0(g, probes)?;
    Some(if probes { format!("({e}).map_with(st::sprobe)") } else { e })
}

fn expr0(g: &G, pr: bool) -> Option<String> {
    use G::*;
    let j = "just::<_, &'a str, SE<'a>>";
    Some(match g {
        Just(c) => format!("{j}({}).map(st::tv)", ch(*c)),
        JustSeq(a, c) => format!("{j}([{}, {}]).map(st::seq2::<{}, {}>)", ch(*a), ch(*c), ch(*a), ch(*c)),
        Any => "any::<&'a str, SE<'a>>().map(st::tv)".to_string(),
        OneOf(s) => format!("one_of::<_, &'a str, SE<'a>>({:?}).map(st::tv)", s),
        NoneOf(s) => format!("none_of::<_, &'a str, SE<'a>>({:?}).map(st::tv)", s),
        End => "end::<&'a str, SE<'a>>().map(st::unit)".to_string(),
        Empty => "empty::<&'a str, SE<'a>>().map(st::unit)".to_string(),
        Custom(k, ok) => format!("custom::<_, &'a str, Val, SE<'a>>(st::cust::<{k}, {ok}>)"),
        Map(a) => format!("({}).map(st::wrap)", expr(a, pr)?),
        To(a) => format!("({}).to(Val::Z)", expr(a, pr)?),
        Ignored(a) => format!("({}).ignored().map(st::unit)", expr(a, pr)?),
        Filter(a) => format!("({}).filter(cvm::ast::pred)", expr(a, pr)?),
        TryMap(a) => format!("({}).try_map(st::tm)", expr(a, pr)?),
        OrNot(a) => format!("({}).or_not().map(st::opt)", expr(a, pr)?),
        Not(a) => format!("({}).not().map(st::unit)", expr(a, pr)?),
        Rewind(a) => format!("({}).rewind()", expr(a, pr)?),
        Boxed(a) => format!("({}).boxed()", expr(a, pr)?),
        Memo(a) => format!("({}).memoized()", expr(a, pr)?),
        Validate(a, id) => format!("({}).validate(st::val_emit::<{id}>)", expr(a, pr)?),
        Labelled(a, false) => format!("({}).labelled(\"L\")", expr(a, pr)?),
        Labelled(a, true) => format!("({}).labelled(\"L\").as_context()", expr(a, pr)?),
        MapErr(a) => format!("({}).map_err(st::tag_err)", expr(a, pr)?),
        Rep(a, bd, s) => sink(format!("({}).repeated(){}", expr(a, pr)?, bounds(bd)?), s, pr)?,
        IntoIter(a, s) => sink(format!("({}).map(st::items).into_iter()", expr(a, pr)?), s, pr)?,
        SepBy(a, sp, bd, l, t, s) => sink(
            format!("({}).separated_by({}){}{}{}", expr(a, pr)?, expr(sp, pr)?, bounds(bd)?, if *l { ".allow_leading()" } else { "" }, if *t { ".allow_trailing()" } else { "" }),
            s,
            pr,
        )?,
        Then(a, c) => format!("({}).then({}).map(st::pair)", expr(a, pr)?, expr(c, pr)?),
        IgnoreThen(a, c) => format!("({}).ignore_then({})", expr(a, pr)?, expr(c, pr)?),
        ThenIgnore(a, c) => format!("({}).then_ignore({})", expr(a, pr)?, expr(c, pr)?),
        Or(a, c) => format!("({}).or({})", expr(a, pr)?, expr(c, pr)?),
        AndIs(a, c) => format!("({}).and_is({})", expr(a, pr)?, expr(c, pr)?),
        PaddedBy(a, p) => format!("({}).padded_by({})", expr(a, pr)?, expr(p, pr)?),
        DelimitedBy(a, o, c) => format!("({}).delimited_by({}, {})", expr(a, pr)?, expr(o, pr)?, expr(c, pr)?),
        Choice(k, v) if (2..=3).contains(&v.len()) => {
            let es: Vec<String> = v.iter().map(|x| expr(x, pr)).collect::<Option<_>>()?;
            match k {
                Coll::Tuple => format!("choice(({},))", es.join(", ")),
                // array / Vec forms need one parser type: only when the alternatives are textually identical
                Coll::Array if es.iter().all(|e| *e == es[0]) => format!("choice([{}])", es.join(", ")),
                Coll::Vec if es.iter().all(|e| *e == es[0]) => format!("choice(vec![{}])", es.join(", ")),
                _ => return None,
            }
        }
        Group(k, v) if (2..=3).contains(&v.len()) => {
            let es: Vec<String> = v.iter().map(|x| expr(x, pr)).collect::<Option<_>>()?;
            let n = v.len();
            match k {
                Coll::Tuple => format!("group(({},)).map(st::tup{n})", es.join(", ")),
                Coll::Array if es.iter().all(|e| *e == es[0]) => format!("group([{}]).map(st::arr::<{n}>)", es.join(", ")),
                _ => return None,
            }
        }
        Recover(a, f) => format!("({}).recover_with(via_parser(({}).map(st::wrap)))", expr(a, pr)?, expr(f, pr)?),
        _ => return None,
    })
}

/// one generated case function
pub fn case_fn(idx: usize, g: &G, probes: bool) -> Option<String> {
    let e = expr(g, probes)?;
    Some(format!("fn c{idx}<'a>(s: &'a str, lazy: bool) -> RawObs {{\n    let p = {e};\n    st::run(&p, s, lazy)\n}}\n"))
}
