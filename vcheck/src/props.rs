//! Property registry: which units decide which property at which tier.

use cvh::e1::*;
use cvh::unit::*;
use cvm::ast::*;
use cvm::enumerate as en;
use cvm::sem::Probes;

pub enum Unit {
    E1(E1Unit),
    Custom { name: String, run: Box<dyn Fn(&ShardCtx) -> UnitResult + Send + Sync> },
}

impl Unit {
    pub fn name(&self) -> &str {
        match self {
            Unit::E1(u) => &u.name,
            Unit::Custom { name, .. } => name,
        }
    }
    pub fn run(&self, cx: &ShardCtx) -> UnitResult {
        match self {
            Unit::E1(u) => run_e1_unit(u, cx),
            Unit::Custom { run, .. } => run(cx),
        }
    }
}

pub const ABC: [Tok; 3] = ['a', 'b', 'c'];
pub const ABCOMMA: [Tok; 3] = ['a', 'b', ','];
pub const BRACKETS: [Tok; 7] = ['a', '(', ')', '[', ']', '{', '}'];
const SPAN: Probes = Probes { span: true, state: false, ctx: false };
const STATE: Probes = Probes { span: true, state: true, ctx: false };
const CTX: Probes = Probes { span: false, state: false, ctx: true };
const NOPROBE: Probes = Probes { span: false, state: false, ctx: false };

/// builder for E1 units
struct B {
    u: E1Unit,
}
fn e1(name: &str, desc: String, grammars: Vec<G>) -> B {
    B {
        u: E1Unit {
            name: name.to_string(),
            grammars,
            class_desc: desc,
            alphabet: ABC.to_vec(),
            max_len: 4,
            kind: KindId::Str,
            cfg: CfgId::Rich,
            probes: SPAN,
            alarm: 0,
            skip_not_content: true,
            lazy: false,
            pair_mode: None,
            clone_mode: false,
            explicit_inputs: None,
            static_set: None,
        },
    }
}
fn class(name: &str, c: &en::Class, n: usize) -> B {
    e1(name, format!("class {} with <= {} nodes", c.name, n), c.upto(n))
}
impl B {
    fn alpha(mut self, a: &[Tok], len: usize) -> Self {
        self.u.alphabet = a.to_vec();
        self.u.max_len = len;
        self
    }
    fn len(mut self, len: usize) -> Self {
        self.u.max_len = len;
        self
    }
    fn kind(mut self, k: KindId) -> Self {
        self.u.kind = k;
        self
    }
    fn cfg(mut self, c: CfgId) -> Self {
        self.u.cfg = c;
        self
    }
    fn probes(mut self, p: Probes) -> Self {
        self.u.probes = p;
        self
    }
    fn alarm(mut self, a: u32) -> Self {
        self.u.alarm = a;
        self
    }
    fn lazy(mut self) -> Self {
        self.u.lazy = true;
        self
    }
    fn pairs(mut self, m: PairMode) -> Self {
        self.u.pair_mode = Some(m);
        self.u.alarm |= DIF;
        self
    }
    fn inputs(mut self, v: Vec<Vec<Tok>>) -> Self {
        self.u.explicit_inputs = Some(v);
        self
    }
    fn static_set(mut self, s: &str) -> Self {
        self.u.static_set = Some(s.to_string());
        self
    }
    fn clone_mode(mut self) -> Self {
        self.u.clone_mode = true;
        self
    }
    fn unit(self) -> Unit {
        Unit::E1(self.u)
    }
}

pub const ALL_PROPS: &[&str] = &["C01", "C02", "C03", "C04", "C05", "C06", "C07", "C08", "C09", "C10", "C11", "C12", "C13", "C14", "C15", "C16", "C17", "C18", "C19", "C20"];

/// class for the output-elision differential (C04): extended class plus the eliding forms
fn k04() -> en::Class {
    let mut c = en::k_ext();
    c.name = "K04";
    c.unary.extend(en::unary_slices());
    c.unary.push(Box::new(|a| if en::nn(&a) { Some(Rep(a, Bounds::STAR, Sink::Bare)) } else { None }));
    c.unary.push(Box::new(|a| if en::nn(&a) { Some(Rep(a, Bounds::new(1, Some(2)), Sink::Bare)) } else { None }));
    c.binary.push(Box::new(|a, p| Some(PaddedBy(a, p))));
    c.binary.push(Box::new(|a, s| if en::nn(&a) && en::nn(&s) { Some(SepBy(a, s, Bounds::new(0, None), false, true, Sink::Bare)) } else { None }));
    c.ternary.push(Box::new(|a, o, c| Some(DelimitedBy(a, o, c))));
    c.unary.push(Box::new(|a| Some(Ext(a, true))));
    c.unary.push(Box::new(|a| Some(Ext(a, false))));
    c.unary.push(Box::new(|a| Some(CustomNest(a))));
    // a parser output iterated by into_iter(): the iterator state must exist in check mode too
    for s in [Sink::Exactly(1), Sink::Exactly(2), Sink::Vec, Sink::Count] {
        c.unary.push(Box::new(move |a| Some(IntoIter(a, s.clone()))));
    }
    c
}

fn wrap_label(g: G) -> G {
    Labelled(b(g), false)
}
fn wrap_label_ctx(g: G) -> G {
    Labelled(b(g), true)
}
fn wrap_map_err(g: G) -> G {
    MapErr(b(g))
}
fn wrap_memo(g: G) -> G {
    Memo(b(g))
}

fn rec_unit(name: &'static str, tier: Tier) -> Unit {
    Unit::Custom { name: name.to_string(), run: Box::new(move |cx| eng_rec::run(name, tier, cx)) }
}

fn nested_unit(name: &'static str, tier: Tier) -> Unit {
    Unit::Custom { name: name.to_string(), run: Box::new(move |cx| eng_nested::run(name, tier, cx)) }
}

pub fn units(prop: &str, tier: Tier) -> Option<Vec<Unit>> {
    let q = tier == Tier::Quick;
    let pick = |a: usize, b: usize| if q { a } else { b };
    Some(match prop {
        "C01" => {
            // acceptance, output value, per-node extents == PEG reading
            let alarm = ACC | VAL | EXT;
            let k = en::k01();
            let mut v = vec![
                class("k01-str", &k, pick(4, 5)).len(pick(4, 5)).alarm(alarm).unit(),
                class("k01-str-multibyte", &k, pick(3, 4)).kind(KindId::StrMb).alarm(alarm).unit(),
                class("k01-slice", &k, pick(3, 4)).kind(KindId::Slice).alarm(alarm).unit(),
                // the same grammars with every combinator value used through its own Clone impl (original dropped)
                class("k01-through-clone", &k, pick(3, 4)).alarm(alarm).clone_mode().unit(),
            ];
            // the PEG reading does not depend on how the input is stored (cursor save / rewind are per input kind)
            for kind in [KindId::Stream, KindId::Io, KindId::MappedGapped, KindId::U8] {
                v.push(class(&format!("k01-{}", kind.name()), &k, pick(3, 4)).kind(kind).alarm(alarm).unit());
            }
            v.push(e1("k01-by-reference-slice", format!("every K01 grammar with <= {} nodes that reads a token through any / select, rewritten to any_ref / select_ref", pick(3, 4)), en::by_ref_all(&k.upto(pick(3, 4)))).kind(KindId::Slice).alarm(alarm).unit());
            // select! / select_ref! written with overlapping guarded arms
            v.push(class("k01-select-macro-str", &en::k01_select_macro(), pick(4, 4)).alarm(alarm).unit());
            v.push(e1("k01-select-ref-macro-slice", "K01select grammars (<= 3 nodes) with every any / select rewritten to any_ref / select_ref (the select_ref! macro)".into(), en::by_ref_all(&en::k01_select_macro().upto(3))).kind(KindId::Slice).alarm(alarm).unit());
            v.push(e1("k01-select-ref-macro-mapped", "K01select grammars (<= 3 nodes) rewritten to any_ref / select_ref on Input::map".into(), en::by_ref_all(&en::k01_select_macro().upto(3))).kind(KindId::MappedGapped).alarm(alarm).unit());
            v.push(class("k01-select-macro-stream", &en::k01_select_macro(), 3).kind(KindId::Stream).alarm(alarm).unit());
            // the primitive matchers over every container flavour accepted as a token set / token sequence
            v.push(Unit::Custom { name: "primitive-seq-flavours".into(), run: Box::new(move |cx| eng_inputs::run("primitive-seq-flavours", tier, cx)) });
            // the option rule again, with the option driven as an iterable parser (IterParser for OrNot)
            v.push(e1("k01-option-as-iterator", format!("a.or_not() used through its IterParser impl (collect, count, unit parser, collect_exactly, foldl, foldr) for every K01 grammar a with <= {} nodes, and pairs of options / an option and a repetition chained with IterParser::then, each followed by a rest capture", pick(2, 3)), en::k01_opt_iter(pick(2, 3))).alarm(alarm).unit());
            if !q {
                v.push(class("kcore-deep", &en::k_core(), 6).alarm(alarm).unit());
            }
            v.push(e1("k01-statically-typed", "statically typed (generated, unboxed) parsers: every K01 grammar with <= 2 nodes and a stride of the 3-node ones".into(), vec![]).static_set("c01").len(pick(4, 5)).alarm(alarm).unit());
            v
        }
        "C02" => {
            let alarm = ACC | VAL | EXT;
            vec![
                e1("k02-repeated", "repeated() templates: items x bounds(0..4, exactly, configure) x sinks, each followed by a rest capture".into(), en::k02_rep(!q))
                    .alpha(&ABCOMMA, pick(5, 6))
                    .alarm(alarm)
                    .unit(),
                e1("k02-separated", "separated_by() templates: items x separators x bounds(0..4, exactly) x leading/trailing x sinks, each followed by a rest capture".into(), en::k02_sep(!q))
                    .alpha(&ABCOMMA, pick(5, 6))
                    .alarm(alarm)
                    .unit(),
                e1("k02-iter-chains", "iterable parsers used as such: a.or_not() as an iterator, and every pair of links (repeated / separated_by / or_not / into_iter) joined by IterParser::then, x 7 sinks, each followed by a rest capture".into(), en::k02_chain(!q))
                    .alpha(&ABCOMMA, pick(5, 6))
                    .alarm(alarm)
                    .unit(),
                e1("k02-configured-uncollected", "item.repeated().configure / try_configure (bounds from the context) used without collect (unit parser, to_slice, ignored, sequence, count())".into(), en::ctx_bare_templates())
                    .len(pick(5, 6))
                    .cfg(CfgId::RichCx)
                    .probes(NOPROBE)
                    .alarm(alarm)
                    .unit(),
                // collect() into every Container flavour sees the same item sequence
                Unit::Custom { name: "collect-container-flavours".into(), run: Box::new(move |cx| eng_inputs::run("collect-container-flavours", tier, cx)) },
                e1("k02-separated-multibyte", "separated_by() templates on multi-byte text".into(), en::k02_sep(false)).alpha(&ABC, 4).kind(KindId::StrMb).alarm(alarm).unit(),
                // the bounds / flags of a repetition are fields of the combinator value: they must survive its Clone
                e1("k02-through-clone", "repeated()/separated_by() templates, every combinator value used through its own Clone impl (original dropped)".into(), {
                    let mut v = en::k02_rep(false);
                    v.extend(en::k02_sep(false));
                    v
                })
                .alpha(&ABCOMMA, 4)
                .alarm(alarm)
                .clone_mode()
                .unit(),
            ]
        }
        "C03" => {
            // whole-input contract, output/error consistency, lazy prefix
            let alarm = ACC | CON | NOE | LAZ;
            vec![
                class("k01-contract", &en::k01(), pick(3, 4)).len(pick(4, 5)).alarm(alarm).lazy().unit(),
                class("kext-contract", &en::k_ext(), pick(3, 4)).len(pick(4, 5)).alarm(alarm).lazy().unit(),
                class("kext-contract-emptyerr", &en::k_ext(), pick(3, 4)).cfg(CfgId::Empty).probes(NOPROBE).alarm(alarm).lazy().unit(),
                class("k01-contract-cheap", &en::k01(), pick(3, 3)).cfg(CfgId::Cheap).probes(NOPROBE).alarm(alarm).lazy().unit(),
                class("kext-contract-through-clone", &en::k_ext(), 3).alarm(alarm).lazy().clone_mode().unit(),
                // "every token was consumed" must not depend on how the input announces its length
                class("kext-contract-stream", &en::k_ext(), 3).kind(KindId::Stream).alarm(alarm).lazy().unit(),
                class("kext-contract-boxed-stream-no-size-hint", &en::k_ext(), 3).kind(KindId::BoxedStream).alarm(alarm).lazy().unit(),
                class("kext-contract-ioinput", &en::k_ext(), 3).kind(KindId::Io).alarm(alarm).lazy().unit(),
                // ... nor on how the reader behind an IoInput answers: every schedule of short reads / Interrupted answers
                class("k01-contract-ioinput-faulty-reader", &en::k01(), 3).len(pick(3, 4)).kind(KindId::IoFaulty).alarm(alarm).lazy().unit(),
                e1("k02-contract", "repeated()/separated_by() templates".into(), {
                    let mut v = en::k02_rep(false);
                    v.extend(en::k02_sep(false));
                    v
                })
                .alpha(&ABCOMMA, pick(4, 5))
                .alarm(alarm)
                .lazy()
                .unit(),
                // a nested input is a whole input too: consumed completely unless its parser is lazy()
                nested_unit("nested-wide@contract", tier),
            ]
        }
        "C04" => {
            let k = k04();
            let gs: Vec<G> = k.upto(pick(3, 4));
            let mut pairs = vec![];
            for g in &gs {
                if en::has_elision(g) {
                    pairs.push(g.clone());
                    pairs.push(en::explicit(g));
                }
            }
            vec![
                class("k04-check-vs-parse", &k, pick(3, 4)).probes(NOPROBE).alarm(CHK).unit(),
                class("k01-check-vs-parse", &en::k01(), pick(3, 4)).probes(NOPROBE).alarm(CHK).unit(),
                class("k04-check-vs-parse-through-clone", &k, 3).probes(NOPROBE).alarm(CHK).clone_mode().unit(),
                class("kstate-check-vs-parse", &en::k_state(), pick(3, 3)).cfg(CfgId::RichSt).probes(NOPROBE).alarm(CHK).unit(),
                class("kctx-check-vs-parse", &en::k_ctx(), pick(3, 4)).cfg(CfgId::RichCx).probes(NOPROBE).alarm(CHK).unit(),
                e1("k02-check-vs-parse", "repeated()/separated_by() templates".into(), {
                    let mut v = en::k02_rep(false);
                    v.extend(en::k02_sep(false));
                    v
                })
                .alpha(&ABCOMMA, 4)
                .probes(NOPROBE)
                .alarm(CHK)
                .unit(),
                e1("k04deep-elision-pairs", format!("every K04deep grammar (emitters under bare repetition / separators / ignore_then / then_ignore / ignored / to_slice / padded_by) with <= {} nodes containing an output-eliding combinator vs its value-building formulation", pick(5, 6)), {
                    let mut v = vec![];
                    for g in en::k04_deep().upto(pick(5, 6)) {
                        if en::has_elision(&g) {
                            v.push(g.clone());
                            v.push(en::explicit(&g));
                        }
                    }
                    v
                })
                .alpha(&['a', 'b'], 4)
                .probes(NOPROBE)
                .pairs(PairMode::Exact)
                .unit(),
                // text parsers and regex() have hand-written fast paths: the same prefix in every eliding formulation
                Unit::Custom { name: "text-elision".into(), run: Box::new(move |cx| eng_text::run_elision("text-elision", if tier == Tier::Quick { 3 } else { 4 }, cx)) },
                e1("k04-elision-pairs", format!("every K04 grammar with <= {} nodes containing an output-eliding combinator vs its value-building formulation", pick(3, 4)), pairs)
                    .probes(NOPROBE)
                    .pairs(PairMode::Exact)
                    .unit(),
            ]
        }
        "C05" => {
            let alarm = EMI | FIN | STO | EMF;
            vec![
                class("kext-emissions-state", &en::k_ext(), pick(4, 4)).len(pick(4, 5)).cfg(CfgId::RichSt).probes(STATE).alarm(alarm).unit(),
                class("kstate-emissions-state", &en::k_state(), pick(3, 4)).cfg(CfgId::RichSt).probes(STATE).alarm(alarm).unit(),
                class("kemit-deep", &en::k_emit(), pick(5, 6)).alpha(&['a', 'b'], 4).cfg(CfgId::RichSt).probes(STATE).alarm(alarm).unit(),
                class("kpadded-emissions-state", &en::k_padded(), pick(4, 5)).alpha(&['a', ' ', 'b'], 4).cfg(CfgId::RichSt).probes(STATE).alarm(alarm).unit(),
                // error types without content still count: every emission on the surviving path is one list entry
                class("kemit-emptyerr", &en::k_emit(), pick(5, 6)).alpha(&['a', 'b'], 4).cfg(CfgId::Empty).probes(NOPROBE).alarm(EMI | EMF | NOE).unit(),
                class("kext-emissions-emptyerr", &en::k_ext(), pick(3, 4)).cfg(CfgId::Empty).probes(NOPROBE).alarm(EMI | EMF | NOE).unit(),
                class("kext-emissions-cheap", &en::k_ext(), pick(3, 4)).cfg(CfgId::Cheap).probes(NOPROBE).alarm(EMI | EMF | NOE).unit(),
                class("kemit-through-clone", &en::k_emit(), pick(4, 5)).alpha(&['a', 'b'], 4).cfg(CfgId::RichSt).probes(STATE).alarm(alarm).clone_mode().unit(),
                e1("k02-emissions", "repeated()/separated_by() templates with emitting items and emitting separators (every bounds / flags / sink setting), each followed by a rest capture".into(), {
                    let mut v = en::k02_rep(false);
                    v.extend(en::k02_sep(false));
                    v.into_iter().filter(|g| g.any_node(&|x| matches!(x, Validate(..)))).collect()
                })
                .alpha(&ABCOMMA, pick(4, 5))
                .cfg(CfgId::RichSt)
                .probes(STATE)
                .alarm(alarm)
                .unit(),
                // emissions made inside a nested input surface in the outer result (with_input copies them out)
                nested_unit("nested-wide@emissions", tier),
            ]
        }
        "C06" => {
            let alarm = PSP | PFO | PEX | MAL | ECN | NOE;
            let k = en::k_ext();
            let mut v = vec![];
            for (n, c) in [("rich", CfgId::Rich), ("simple", CfgId::Simple), ("cheap", CfgId::Cheap), ("empty", CfgId::Empty)] {
                v.push(class(&format!("kext-{n}"), &k, pick(3, 4)).cfg(c).probes(NOPROBE).alarm(alarm).unit());
            }
            v.push(class("kcore-rich", &en::k_core(), pick(4, 5)).alarm(alarm).unit());
            // parsers reconfigured from the context (just(..).configure(seq), configured repetitions): the expected set names
            // what was actually looked for
            v.push(class("kctx-rich", &en::k_ctx(), pick(3, 4)).cfg(CfgId::RichCx).probes(NOPROBE).alarm(alarm).unit());
            for (n, c) in [("rich", CfgId::Rich), ("cheap", CfgId::Cheap)] {
                v.push(
                    e1(&format!("kalt-deep-{n}"), format!("every Kalt grammar (try_map / try_map_with / filter / or_not over then / or) with <= {} nodes that contains a try_map, try_map_with or filter", pick(7, 8)), en::k_alt().upto(pick(7, 8)).into_iter().filter(|g| g.any_node(&|x| matches!(x, TryMap(_) | TryMapWith(_) | Filter(_)))).collect())
                        .alpha(&['a', 'b'], pick(3, 4))
                        .cfg(c)
                        .probes(NOPROBE)
                        .alarm(alarm)
                        .unit(),
                );
            }
            v.push(class("kext-rich-through-clone", &k, 3).probes(NOPROBE).alarm(alarm).clone_mode().unit());
            v.push(class("k01-rich", &en::k01(), pick(3, 4)).alarm(alarm).unit());
            v.push(
                e1("k02-rich", "repeated()/separated_by() templates".into(), {
                    let mut v = en::k02_rep(false);
                    v.extend(en::k02_sep(false));
                    v
                })
                .alpha(&ABCOMMA, 4)
                .alarm(alarm)
                .unit(),
            );
            // the failure of a nested parse is merged into the outer pending error by the furthest-wins rule
            v.push(nested_unit("nested-wide@primary", tier));
            v
        }
        "C07" => {
            let alarm = EXT | MAL | ZCP;
            vec![
                class("k07-str", &en::k07(true), pick(3, 4)).alarm(alarm).unit(),
                class("k07-str-multibyte", &en::k07(true), pick(3, 4)).kind(KindId::StrMb).alarm(alarm).unit(),
                class("k07-slice", &en::k07(true), pick(3, 3)).kind(KindId::Slice).alarm(alarm).unit(),
                class("k07-str-through-clone", &en::k07(true), 3).alarm(alarm).clone_mode().unit(),
                // spans do not depend on the error type (zero-sized and span-only error types take fast paths)
                class("k07-str-emptyerr", &en::k07(true), 3).cfg(CfgId::Empty).alarm(alarm).unit(),
                class("k07-str-cheap", &en::k07(true), 3).cfg(CfgId::Cheap).alarm(alarm).unit(),
                class("k07-stream", &en::k07(false), pick(3, 3)).kind(KindId::Stream).alarm(alarm).unit(),
                // a reader-backed input: spans are positions, whatever the reader behind them is doing
                class("k07-ioinput", &en::k07(false), pick(3, 3)).kind(KindId::Io).alarm(alarm).unit(),
                class("k07-boxed-stream", &en::k07(false), 3).kind(KindId::BoxedStream).alarm(alarm).unit(),
                // to_slice / MapExtra::slice on every other input kind that can hand out slices: sub-slices of the caller's
                // buffer (same memory), spans re-based as documented
                class("k07-u8", &en::k07(true), 3).kind(KindId::U8).alarm(alarm).unit(),
                class("k07-bytes", &en::k07(true), 3).kind(KindId::Bytes).alarm(alarm).unit(),
                class("k07-with-context", &en::k07(true), 3).kind(KindId::WithContext).alarm(alarm).unit(),
                class("k07-with-context-multibyte", &en::k07(true), 3).kind(KindId::WithContextMb).alarm(alarm).unit(),
                class("k07-map-span", &en::k07(true), 3).kind(KindId::MapSpan).alarm(alarm).unit(),
                class("k07-&[char; 3]", &en::k07(true), 3).kind(KindId::Array3).inputs(en::inputs(&ABC, 3).into_iter().filter(|t| t.len() == 3).collect()).alarm(alarm).unit(),
                class("k07-mapped-gapped", &en::k07(false), pick(3, 4)).kind(KindId::MappedGapped).alarm(alarm).unit(),
                // tokens read by reference (any_ref / select_ref): the cursor of a mapped input records the end of
                // the last token separately for the by-value and the by-reference readers
                e1("k07-by-reference-mapped-gapped", "K07 grammars reading a token through any / select, rewritten to any_ref / select_ref".into(), en::by_ref_all(&en::k07(false).upto(pick(3, 4)))).kind(KindId::MappedGapped).alarm(alarm).unit(),
                e1("k07-by-reference-mapped", "K07 grammars reading a token through any / select, rewritten to any_ref / select_ref".into(), en::by_ref_all(&en::k07(false).upto(3))).kind(KindId::Mapped).alarm(alarm).unit(),
                e1("k07-by-reference-slice", "K07 grammars reading a token through any / select, rewritten to any_ref / select_ref".into(), en::by_ref_all(&en::k07(true).upto(3))).kind(KindId::Slice).alarm(alarm).unit(),
                e1("k02-spans", "repeated()/separated_by() templates (fold callbacks with spans, rest slices)".into(), {
                    let mut v = en::k02_rep(false);
                    v.extend(en::k02_sep(false));
                    v
                })
                .alpha(&ABCOMMA, 4)
                .kind(KindId::StrMb)
                .alarm(alarm)
                .unit(),
                Unit::Custom { name: "iterinput".into(), run: Box::new(move |cx| eng_inputs::run("iterinput", tier, cx)) },
                Unit::Custom { name: "cursor-machine".into(), run: Box::new(move |cx| eng_inputs::run("cursor-machine", tier, cx)) },
            ]
            .into_iter()
            .chain(eng_pratt::units_spans(tier).into_iter().map(|u| Unit::Custom { name: u.name.clone(), run: Box::new(move |cx| eng_pratt::run_unit(&u, cx)) }))
            .collect()
        }
        "C08" => {
            let alarm = ACC | VAL | EXT | EMI | EMC | PSP | PFO | PEX | EMF;
            vec![
                class("krecfail-deep", &en::k_recfail(), pick(7, 8)).alpha(&['a', 'b'], pick(4, 5)).alarm(alarm).unit(),
                class("kext-recovery", &en::k_ext(), pick(4, 4)).len(pick(4, 5)).alarm(alarm).unit(),
                // recovery decides by the error list (skip_then_retry_until accepts only an error-free retry): the same
                // decisions with error types that carry little or nothing
                class("kext-recovery-emptyerr", &en::k_ext(), pick(4, 4)).cfg(CfgId::Empty).probes(NOPROBE).alarm(ACC | VAL | EMI | EMF | NOE).unit(),
                class("kext-recovery-cheap", &en::k_ext(), pick(3, 4)).cfg(CfgId::Cheap).probes(NOPROBE).alarm(ACC | VAL | EMI | EMF | PSP | NOE).unit(),
                class("kext-recovery-through-clone", &en::k_ext(), pick(3, 4)).alarm(alarm).clone_mode().unit(),
                class("knd-nested-delimiters", &en::k_nd(), pick(3, 4)).alpha(&BRACKETS, pick(4, 5)).alarm(alarm).unit(),
                e1("kext-statically-typed", "statically typed parsers: extended-class grammars (recovery, validate, labels, map_err, separators) with 2 nodes and a stride of the 3-node ones".into(), vec![]).static_set("ext").len(pick(4, 5)).alarm(alarm).unit(),
                // recovery inside / around a nested input: the recovered error must surface
                nested_unit("nested-wide@recovery", tier),
            ]
        }
        "C09" => eng_pratt::units(tier)
            .into_iter()
            .map(|u| Unit::Custom { name: u.name.clone(), run: Box::new(move |cx| eng_pratt::run_unit(&u, cx)) })
            .collect(),
        "C10" => {
            let alarm = ACC | VAL | EXT | EMI | PSP | MAL | PUL;
            let k = en::k01();
            let ke = en::k_ext();
            let mut v = vec![];
            for kind in [
                KindId::Str,
                KindId::StrMb,
                KindId::Slice,
                KindId::Stream,
                KindId::BoxedStream,
                KindId::Mapped,
                KindId::MappedGapped,
                KindId::U8,
                KindId::Io,
                KindId::Bytes,
                KindId::WithContext,
                KindId::WithContextMb,
                KindId::MapSpan,
            ] {
                v.push(class(&format!("k01-{}", kind.name()), &k, pick(3, 3)).kind(kind).alarm(alarm).unit());
                v.push(class(&format!("kext-{}", kind.name()), &ke, pick(3, 3)).kind(kind).alarm(alarm).unit());
            }
            // IoInput over a reader that deviates from the default answer (1-byte short reads, Interrupted at the k-th
            // read call, both): 15 schedules x every case; the result must not depend on the schedule
            v.push(class("k01-ioinput-faulty-reader", &k, pick(3, 4)).kind(KindId::IoFaulty).alarm(alarm).unit());
            v.push(class("kext-ioinput-faulty-reader", &ke, 3).len(pick(3, 4)).kind(KindId::IoFaulty).alarm(alarm).unit());
            for kind in [KindId::Stream, KindId::Mapped, KindId::Io, KindId::WithContext] {
                v.push(class(&format!("k01-{}-through-clone", kind.name()), &k, 3).kind(kind).alarm(alarm).clone_mode().unit());
            }
            for kind in [KindId::Slice, KindId::Mapped, KindId::MappedGapped, KindId::U8] {
                v.push(e1(&format!("k01-by-reference-{}", kind.name()), "K01 grammars (<= 3 nodes) reading a token through any / select, rewritten to any_ref / select_ref".into(), en::by_ref_all(&k.upto(3))).kind(kind).alarm(alarm).unit());
                v.push(e1(&format!("kext-by-reference-{}", kind.name()), "extended-class grammars (<= 3 nodes) reading a token through any / select, rewritten to any_ref / select_ref".into(), en::by_ref_all(&ke.upto(3))).kind(kind).alarm(alarm).unit());
            }
            // &[T; N]: all inputs of length exactly N
            let arr_inputs: Vec<Vec<Tok>> = en::inputs(&ABC, 3).into_iter().filter(|t| t.len() == 3).collect();
            v.push(class("k01-&[char; 3]", &k, 3).kind(KindId::Array3).inputs(arr_inputs.clone()).alarm(alarm).unit());
            v.push(class("kext-&[char; 3]", &ke, 3).kind(KindId::Array3).inputs(arr_inputs.clone()).alarm(alarm).unit());
            v.push(e1("k01-by-reference-&[char; 3]", "K01 grammars (<= 3 nodes) rewritten to any_ref / select_ref".into(), en::by_ref_all(&k.upto(3))).kind(KindId::Array3).inputs(arr_inputs).alarm(alarm).unit());
            // Stream: inputs longer than the 512-token batch, grammars that backtrack over the whole input
            let a_star = |s: Sink| Rep(b(Just('a')), Bounds::STAR, s);
            let long_gs = vec![
                Or(b(Then(b(a_star(Sink::Count)), b(Just('b')))), b(Then(b(a_star(Sink::Count)), b(Just('c'))))),
                Then(b(OrNot(b(Then(b(a_star(Sink::Bare)), b(Just('b')))))), b(Rep(b(Any), Bounds::STAR, Sink::Count))),
                Then(b(Rewind(b(Rep(b(Any), Bounds::STAR, Sink::Count)))), b(Rep(b(Any), Bounds::STAR, Sink::Count))),
                Then(b(Not(b(Then(b(a_star(Sink::Bare)), b(Just('b')))))), b(Rep(b(Any), Bounds::STAR, Sink::Count))),
                Then(b(AndIs(b(a_star(Sink::Count)), b(Then(b(a_star(Sink::Bare)), b(Just('c')))))), b(Just('c'))),
                Choice(Coll::Vec, vec![Then(b(a_star(Sink::Count)), b(End)), Then(b(a_star(Sink::Count)), b(JustSeq('c', 'c'))), Then(b(a_star(Sink::Count)), b(Just('c')))]),
                Recover(b(Then(b(a_star(Sink::Count)), b(Just('b')))), b(Rep(b(Any), Bounds::STAR, Sink::Count))),
            ];
            let mut long_inputs: Vec<Vec<Tok>> = vec![];
            for n in (509..=516).chain(1021..=1027) {
                for tail in ["", "c", "b", "cc", "ab"] {
                    let mut t: Vec<Tok> = vec!['a'; n];
                    t.extend(tail.chars());
                    long_inputs.push(t);
                }
            }
            for kind in [KindId::Stream, KindId::BoxedStream, KindId::Str] {
                v.push(
                    e1(&format!("long-inputs-{}", kind.name()), "hand-picked grammars that backtrack over the whole input, inputs a^n.tail with n around 512 and 1024 (Stream batch boundaries)".into(), long_gs.clone())
                        .kind(kind)
                        .inputs(long_inputs.clone())
                        .probes(NOPROBE)
                        .alarm(alarm)
                        .unit(),
                );
            }
            for n in ["graphemes", "iterinput", "cursor-machine"] {
                v.push(Unit::Custom { name: n.to_string(), run: Box::new(move |cx| eng_inputs::run(n, tier, cx)) });
            }
            v
        }
        "C11" => {
            let wm: &dyn Fn(G) -> G = &wrap_memo;
            let gs = en::k_core().upto(pick(3, 4));
            let pairs = en::decorated_pairs(&gs, &[wm]);
            let mut ext: Vec<G> = en::k_ext().upto(3).into_iter().filter(|g| g.size() == 3).collect();
            ext.extend(en::k02_rep(false).into_iter().step_by(7));
            ext.extend(en::k02_sep(false).into_iter().step_by(31));
            let pairs2 = en::decorated_pairs(&ext, &[wm]);
            vec![
                e1("kcore-memoized-pairs", format!("every Kcore grammar with <= {} nodes x every non-empty subset of nodes wrapped in memoized(), vs the plain grammar", pick(3, 4)), pairs)
                    .probes(NOPROBE)
                    .pairs(PairMode::Exact)
                    .unit(),
                e1("kext-k02-memoized-pairs", "extended-class grammars with 3 nodes and a stride sample of the K02 templates x every non-empty subset of nodes wrapped in memoized(), vs the plain grammar".into(), pairs2)
                    .alpha(&ABCOMMA, 4)
                    .probes(NOPROBE)
                    .pairs(PairMode::Exact)
                    .unit(),
                e1("kmemo-deep-pairs", format!("every Kmemo grammar with <= {} nodes x every non-empty subset of nodes wrapped in memoized(), vs the plain grammar", pick(5, 6)), {
                    let gs = en::k_memo().upto(pick(5, 6));
                    let mut out = vec![];
                    for g in &gs {
                        let n = g.size() as u32;
                        for mask in 1..(1u32 << n) {
                            out.push(g.clone());
                            out.push(en::decorate(g, mask, &wrap_memo));
                        }
                    }
                    out
                })
                .probes(NOPROBE)
                .pairs(PairMode::Exact)
                .unit(),
                e1("kmemo-pairs-through-clone", format!("every Kmemo grammar with <= {} nodes x every non-empty subset of nodes memoized and built through Clone at every node, vs the plain grammar", pick(4, 5)), {
                    let gs = en::k_memo().upto(pick(4, 5));
                    let mut out = vec![];
                    for g in &gs {
                        let n = g.size() as u32;
                        for mask in 1..(1u32 << n) {
                            out.push(g.clone());
                            out.push(en::decorate(g, mask, &wrap_memo));
                        }
                    }
                    out
                })
                .probes(NOPROBE)
                .pairs(PairMode::Exact)
                .clone_mode()
                .unit(),
                e1("memoized-statically-typed", "statically typed parsers: every Kmemo grammar (<= 3 nodes) and Kcore grammar (<= 2 nodes) x every non-empty subset of nodes memoized (nested, adjacent and zero-sized placements share addresses only in this form); compared with the model, in which memoized() is the identity".into(), vec![])
                    .static_set("memo")
                    .len(pick(4, 5))
                    .alarm(ACC | VAL | EXT | EMI | EMC | PSP | PFO | PEX | CHK | PAN | NOE)
                    .unit(),
                e1("kmemo-lookahead-pairs", format!("every KmemoLook grammar (or_not / rewind / then / and_is / ignore_then over two tokens) with <= {} nodes x each single node memoized, vs the plain grammar", pick(7, 8)), {
                    let mut out = vec![];
                    for g in en::k_memo_look().upto(pick(7, 8)) {
                        if !g.any_node(&|x| matches!(x, Rewind(_) | AndIs(..))) {
                            continue;
                        }
                        for i in 0..g.size() as u32 {
                            out.push(g.clone());
                            out.push(en::decorate(&g, 1 << i, &wrap_memo));
                        }
                    }
                    out
                })
                .alpha(&['a', 'b'], 3)
                .probes(NOPROBE)
                .pairs(PairMode::Exact)
                .unit(),
                e1("kmemorec-pairs", format!("every Kmemorec grammar (or_not / then / or / recover_with over one- and two-token leaves) with <= {} nodes that contains a recover_with x each single node memoized, vs the plain grammar", pick(6, 7)), {
                    let mut out = vec![];
                    for g in en::k_memo_rec().upto(pick(6, 7)) {
                        if !g.any_node(&|x| matches!(x, Recover(..))) {
                            continue;
                        }
                        for i in 0..g.size() as u32 {
                            out.push(g.clone());
                            out.push(en::decorate(&g, 1 << i, &wrap_memo));
                        }
                    }
                    out
                })
                .alpha(&['a', 'b'], 3)
                .probes(NOPROBE)
                .pairs(PairMode::Exact)
                .unit(),
                e1("kshare-memoized-definition-pairs", format!("one parser value used several times (let x = def; body with >= 2 uses of x; bodies of <= {} nodes over x / just / map_err / or_not / then / or / recover_with, 5 definitions): def vs def.memoized() - the uses share one memo table, so entries are really looked up (same position after backtracking, under map_err, inside a recovery strategy)", pick(8, 8)), en::k_share_pairs(pick(8, 8)))
                    .alpha(&['a', 'b'], pick(4, 5))
                    .probes(NOPROBE)
                    .pairs(PairMode::Exact)
                    .unit(),
                rec_unit("leftrec", tier),
                rec_unit("memo-shared-by-clone", tier),
                // errors replayed from the memo table, with context frames
                rec_unit("memo-context-errors", tier),
                // a memoized rule that is active outside a nested input and entered again inside it
                nested_unit("nested-recursive-memo", tier),
            ]
        }
        "C12" => vec![
            e1("krec-generated", format!("generated recursive grammars with guarded self-references: every Krec body (<= {} nodes over just/end/empty/rec_ref under or_not/map/repeated/validate/then/or) that is guarded, built with recursive() and with declare/define, plus two-level nestings whose inner rule refers to the outer one (mutual recursion); the model's native recursion is the unrolling", pick(5, 6)), en::k_rec(pick(5, 6)))
                .alpha(&['a', 'b'], pick(6, 7))
                .alarm(ACC | VAL | EXT | EMI | EMC | PSP | PFO | PEX | CHK | PAN | NOE | EMF)
                .unit(),
            rec_unit("rec-templates", tier), rec_unit("rec-erased-handles", tier), rec_unit("rec-lifecycle", tier), rec_unit("rec-depth", tier), rec_unit("rec-define-twice", tier)],
        "C13" => {
            let any = ACC | VAL | EXT | EMI | EMC | PSP | PFO | PEX | PCX | CHK | PAN | NOE;
            let dup = |gs: Vec<G>| -> Vec<G> { gs.into_iter().flat_map(|g| [g.clone(), g]).collect() };
            let mut k02: Vec<G> = en::k02_rep(false);
            k02.extend(en::k02_sep(false));
            vec![
                class("k01-through-clone", &en::k01(), pick(3, 4)).alarm(any).clone_mode().unit(),
                class("kext-through-clone", &en::k_ext(), pick(3, 4)).alarm(any).clone_mode().unit(),
                e1("k02-through-clone", "repeated()/separated_by() templates, every combinator value used through its Clone".into(), k02.clone()).alpha(&ABCOMMA, 4).alarm(any).clone_mode().unit(),
                e1("k02-plain-vs-clone", "repeated()/separated_by() templates: the parser built plainly vs built through Clone at every node (differential)".into(), dup(k02))
                    .alpha(&ABCOMMA, 4)
                    .probes(NOPROBE)
                    .pairs(PairMode::Exact)
                    .clone_mode()
                    .unit(),
                e1("kext-plain-vs-clone", "extended class <= 3 nodes: plain vs through Clone (differential)".into(), dup(en::k_ext().upto(3))).probes(NOPROBE).pairs(PairMode::Exact).clone_mode().unit(),
                Unit::Custom { name: "histories".into(), run: Box::new(move |cx| eng_hist::run("histories", tier, cx)) },
                Unit::Custom { name: "histories-static".into(), run: Box::new(move |cx| eng_hist::run("histories-static", tier, cx)) },
                Unit::Custom { name: "threads".into(), run: Box::new(move |cx| eng_hist::run("threads", tier, cx)) },
                // recursive parsers as values: clone / boxed / drop-the-original / parse histories
                rec_unit("rec-lifecycle", tier),
                // the recursion handle through boxed() / Rc / Box inside its own definition
                rec_unit("rec-erased-handles", tier),
                // a clone of a memoized parser is interchangeable with its original inside one grammar too
                rec_unit("memo-shared-by-clone", tier),
            ]
        }
        "C14" => eng_text::units(tier)
            .into_iter()
            .map(|u| Unit::Custom { name: u.name.clone(), run: Box::new(move |cx| eng_text::run_unit(&u, cx)) })
            .collect(),
        "C15" => {
            let alarm = ACC | VAL | CXO | PSP | PEX | CHK | PAN;
            vec![
                class("kctx", &en::k_ctx(), pick(4, 4)).len(pick(4, 5)).cfg(CfgId::RichCx).probes(CTX).alarm(alarm).unit(),
                class("kctx-through-clone", &en::k_ctx(), pick(3, 4)).cfg(CfgId::RichCx).probes(CTX).alarm(alarm).clone_mode().unit(),
                e1("kctx-recursion", format!("guarded recursive bodies (<= {} nodes) over context providers and consumers (with_ctx, map_ctx, then_with_ctx, ignore_with_ctx, just from ctx, repeated at_most from ctx)", pick(5, 6)), en::k_ctx_rec(pick(5, 6)))
                    .len(pick(4, 5))
                    .cfg(CfgId::RichCx)
                    .probes(CTX)
                    .alarm(alarm)
                    .unit(),
                e1("ctx-configure-over-static-bounds", "item.repeated().<static bounds>.configure(exactly / at_most / at_least from ctx): 4 items x 18 static bounds x 3 kinds, under with_ctx(a|b|c|d) and then_with_ctx(any), each followed by a rest capture".into(), en::ctx_pre_templates())
                    .len(pick(5, 6))
                    .cfg(CfgId::RichCx)
                    .probes(CTX)
                    .alarm(alarm)
                    .unit(),
                e1("ctx-configured-uncollected", "item.repeated().configure / try_configure (exactly / at_most from ctx) used WITHOUT collect - as a unit parser, inside to_slice / ignored / a sequence, and through count(): 5 items x 6 kinds x 4 uses x 6 context providers, each followed by a rest capture".into(), en::ctx_bare_templates())
                    .len(pick(5, 6))
                    .cfg(CfgId::RichCx)
                    .probes(CTX)
                    .alarm(alarm)
                    .unit(),
                e1("ctx-providers-as-iterable-parsers", "a.ignore_with_ctx(item.repeated()..) / a.then_with_ctx(..) used as ITERABLE parsers: 4 providers x 5 items (just from ctx, any, alternatives, emitting) x 6 kinds (2 providers x unbounded / at_most from ctx / exactly from ctx) x 9 sinks (collect, count, unit parser, collect_exactly, foldl, foldr, foldl_with), each followed by a rest capture; plus nestings in an outer context".into(), en::ctx_iter_templates())
                    .len(pick(5, 6))
                    .cfg(CfgId::RichCx)
                    .probes(CTX)
                    .alarm(alarm)
                    .unit(),
                e1("ctx-providers-as-chain-links", "a context provider as one link of an iterable chain (first.then(a.ignore_with_ctx(item.repeated()..)) and the other way round): 5 other links (repeated, or_not, into_iter, separated_by) x 2 providers x 3 items x 6 kinds x 7 sinks x 2 orders; each followed by a rest capture".into(), en::ctx_chain_templates())
                    .len(pick(5, 6))
                    .cfg(CfgId::RichCx)
                    .probes(CTX)
                    .alarm(alarm)
                    .unit(),
                e1("ctx-huge-counts", "counts far beyond anything storable (usize::MAX / 4), as a static context and read from the input as a length prefix, x every way of configuring a repetition from the context (exactly / at_most / at_least over static bounds, try_configure, uncollected, as iterable parsers and chain links) x sinks".into(), en::ctx_huge_templates())
                    .alpha(&['a', 'e', 'b'], pick(4, 5))
                    .cfg(CfgId::RichCx)
                    .probes(CTX)
                    .alarm(alarm)
                    .unit(),
                e1("ctx-families", "hand-built context-sensitive families: length-prefixed (nested, repeated, in choices), range from context, try_configure errors, delimiter-echo (nested providers), recursion under a context, indentation-like levels".into(), en::ctx_families())
                    .len(pick(6, 8))
                    .cfg(CfgId::RichCx)
                    .probes(CTX)
                    .alarm(alarm)
                    .unit(),
            ]
        }
        "C16" => vec![nested_unit("nested-wide", tier), nested_unit("nested-deep", tier), nested_unit("nested-recursive-memo", tier)],
        "C17" => {
            let gs = en::k_core().upto(pick(3, 3));
            let wl: &dyn Fn(G) -> G = &wrap_label;
            let wc: &dyn Fn(G) -> G = &wrap_label_ctx;
            let wm: &dyn Fn(G) -> G = &wrap_map_err;
            let pairs = en::decorated_pairs(&gs, &[wl, wc, wm]);
            vec![
                e1("kcore-decorated-pairs", "every Kcore grammar with <= 3 nodes x every non-empty subset of nodes wrapped in labelled / labelled.as_context / map_err, vs the undecorated grammar".into(), pairs)
                    .probes(NOPROBE)
                    .pairs(PairMode::Shape)
                    .unit(),
                class("kext-label-content", &en::k_ext(), pick(3, 4)).alarm(ACC | VAL | PSP | PEX | PCX | EMC | EMI).unit(),
                class("klabel-deep-content", &en::k_label(), pick(5, 6)).alarm(ACC | VAL | PSP | PEX | PCX | EMC | EMI).unit(),
                class("klabel-through-clone", &en::k_label(), pick(4, 5)).alarm(ACC | VAL | PSP | PEX | PCX | EMC | EMI).clone_mode().unit(),
                class("klabelctx-deep-content", &en::k_labelctx(), pick(7, 8)).alarm(ACC | VAL | PSP | PEX | PCX | EMC | EMI).unit(),
                e1("klabelemit-deep-content", format!("every Klabelemit grammar (validate / labelled / labelled.as_context / map_err over then / recover_with; nothing above backtracks) with <= {} nodes that has an emitter below an as_context label: the complete error list, with context frames, also when the labelled parser fails after the emission", pick(6, 7)), en::k_labelemit().upto(pick(6, 7)).into_iter().filter(|g| g.any_node(&|x| matches!(x, Labelled(a, true) if a.any_node(&|y| matches!(y, Validate(..) | Recover(..)))))).collect())
                    .alpha(&['a', 'b'], pick(3, 4))
                    .alarm(ACC | VAL | PSP | PEX | PCX | EMC | EMI | EMF)
                    .unit(),
                e1("kmaperr-deep-content", format!("every Kmaperr grammar (map_err / try_map / or_not / labelled.as_context over then / or) with <= {} nodes that contains map_err", pick(7, 8)), en::k_maperr().upto(pick(7, 8)).into_iter().filter(|g| g.any_node(&|x| matches!(x, MapErr(_)))).collect())
                    .alpha(&['a', 'b'], pick(3, 4))
                    .alarm(ACC | VAL | PSP | PEX | PCX | EMC | EMI)
                    .unit(),
            ]
        }
        "C18" => {
            let alarm = STO | FIN;
            vec![
                class("kstate-str", &en::k_state(), pick(3, 4)).cfg(CfgId::RichSt).probes(STATE).alarm(alarm).unit(),
                class("kstate-str-through-clone", &en::k_state(), 3).cfg(CfgId::RichSt).probes(STATE).alarm(alarm).clone_mode().unit(),
                class("kstate-slice", &en::k_state(), pick(3, 3)).kind(KindId::Slice).cfg(CfgId::RichSt).probes(STATE).alarm(alarm).unit(),
                e1("kstate-by-reference-slice", "state-class grammars (<= 3 nodes) reading a token through any / select, rewritten to any_ref / select_ref (tokens handed out by reference reach the inspector too)".into(), en::by_ref_all(&en::k_state().upto(3))).kind(KindId::Slice).cfg(CfgId::RichSt).probes(STATE).alarm(alarm).unit(),
                class("kstate-stream", &en::k_state(), pick(3, 3)).kind(KindId::Stream).cfg(CfgId::RichSt).probes(STATE).alarm(alarm).unit(),
                // closures that decide by the state they see, inside look-aheads / options / recoveries: the state must be
                // right WHILE every sub-parser runs, not only after it
                class("kstguard-str", &en::k_stguard(), pick(5, 6)).alpha(&['a', 'b'], pick(4, 5)).cfg(CfgId::RichSt).probes(STATE).alarm(alarm | ACC | VAL).unit(),
                class("kstguard-stream", &en::k_stguard(), pick(4, 5)).alpha(&['a', 'b'], 4).kind(KindId::Stream).cfg(CfgId::RichSt).probes(STATE).alarm(alarm | ACC | VAL).unit(),
                // .padded() advances with InputRef::skip_while: skipped tokens reach the inspector exactly once
                class("kpadded-str", &en::k_padded(), pick(5, 6)).alpha(&['a', ' ', 'b'], 4).cfg(CfgId::RichSt).probes(STATE).alarm(alarm).unit(),
                class("kpadded-slice", &en::k_padded(), pick(4, 5)).alpha(&['a', ' ', 'b'], 4).kind(KindId::Slice).cfg(CfgId::RichSt).probes(STATE).alarm(alarm).unit(),
                class("kpadded-stream", &en::k_padded(), pick(4, 5)).alpha(&['a', ' ', 'b'], 4).kind(KindId::Stream).cfg(CfgId::RichSt).probes(STATE).alarm(alarm).unit(),
                // every InputRef operation (next / peek / skip / save / rewind / parse / check) with an inspector snapshot after each step
                Unit::Custom { name: "cursor-machine".into(), run: Box::new(move |cx| eng_inputs::run("cursor-machine", tier, cx)) },
            ]
            .into_iter()
            // the state seen by Pratt fold callbacks, with operator symbols sharing a prefix
            .chain(eng_pratt::units_state(tier).into_iter().map(|u| Unit::Custom { name: u.name.clone(), run: Box::new(move |cx| eng_pratt::run_unit(&u, cx)) }))
            .collect()
        }
        "C19" => eng_drops::unit_names().into_iter().map(|n| Unit::Custom { name: n.to_string(), run: Box::new(move |cx| eng_drops::run(n, tier, cx)) }).collect(),
        "C20" => {
            let alarm = PAN | NOE | CON;
            let mut v = vec![];
            for (n, c) in [("rich", CfgId::Rich), ("simple", CfgId::Simple), ("cheap", CfgId::Cheap), ("empty", CfgId::Empty)] {
                v.push(class(&format!("kext-{n}"), &en::k_ext(), pick(3, 4)).cfg(c).probes(NOPROBE).alarm(alarm).unit());
                v.push(class(&format!("k01-{n}"), &en::k01(), pick(3, 3)).cfg(c).probes(NOPROBE).alarm(alarm).unit());
                if n == "rich" {
                    v.push(rec_unit("leftrec", tier));
                    // "no stack exhaustion": operator chains and nestings up to a million levels
                    v.push(rec_unit("rec-depth", tier));
                    // replayed errors must not grow with the nesting depth
                    v.push(rec_unit("memo-context-errors", tier));
                    v.push(e1("k02-iter-chains", "iterable parsers chained with IterParser::then (repeated / separated_by / or_not / into_iter links) x 7 sinks".into(), en::k02_chain(false)).alpha(&ABCOMMA, pick(4, 5)).probes(NOPROBE).alarm(alarm).unit());
                    // a hostile length prefix: a repetition told to expect usize::MAX / 4 items reports an error, nothing else
                    v.push(e1("ctx-huge-counts", "counts far beyond anything storable (usize::MAX / 4), as a static context and read from the input as a length prefix, x every way of configuring a repetition from the context x sinks".into(), en::ctx_huge_templates()).alpha(&['a', 'e', 'b'], pick(4, 5)).cfg(CfgId::RichCx).probes(NOPROBE).alarm(alarm | CHK).unit());
                    v.push(Unit::Custom { name: "primitive-seq-flavours+unbounded".into(), run: Box::new(move |cx| eng_inputs::run("primitive-seq-flavours+unbounded", tier, cx)) });
                    v.push(Unit::Custom { name: "pull-budgets".into(), run: Box::new(move |cx| eng_inputs::run("pull-budgets", tier, cx)) });
                    // the text parsers on &Graphemes (clusters of several code points, multi-byte first code points): every
                    // string over the 16-character alphabet returns a result
                    for u in eng_text::units(tier).into_iter().filter(|u| u.name == "text-graphemes") {
                        v.push(Unit::Custom { name: u.name.clone(), run: Box::new(move |cx| eng_text::run_unit(&u, cx)) });
                    }
                    v.push(Unit::Custom { name: "text-totality".into(), run: Box::new(move |cx| eng_text::run_totality("text-totality", if tier == Tier::Quick { 4 } else { 5 }, cx)) });
                }
                if n == "rich" {
                    v.push(class("ktot-rich-through-clone", &en::k_tot(), pick(4, 5)).alpha(&['a', 'b'], 3).cfg(c).probes(NOPROBE).alarm(alarm).clone_mode().unit());
                }
                v.push(class(&format!("ktot-{n}"), &en::k_tot(), pick(5, 6)).alpha(&['a', 'b'], pick(3, 4)).cfg(c).probes(NOPROBE).alarm(alarm).unit());
            }
            v
        }
        _ => return None,
    })
}

#[allow(dead_code)]
fn _unused() {
    let _ = wrap_memo;
}
