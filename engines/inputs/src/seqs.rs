//! C01: the primitive matchers `one_of`, `none_of` and `just` over EVERY container flavour the library accepts as
//! a token set / token sequence (`Seq` / `OrderedSeq`: a single token, `&T`, `&[T]`, `[T; N]`, `&[T; N]`, `Vec`,
//! `LinkedList`, `HashSet`, `BTreeSet`, `&str`, `String`, `Range`, `RangeInclusive`, `RangeFrom`), for every
//! subset / sequence / range over a five-letter alphabet, on every short input. The oracle is the definition:
//! membership for the sets, element-wise equality in order for the sequences.

use chumsky::error::{Rich, RichPattern};
use chumsky::prelude::*;
use cvh::unit::{ShardCtx, UnitResult};
use std::collections::{BTreeSet, HashSet, LinkedList};
use std::panic::{catch_unwind, AssertUnwindSafe};

const SIG: [char; 5] = ['a', 'b', 'c', 'd', 'e'];

type Ex<'a> = extra::Err<Rich<'a, char>>;
type ExB<'a> = extra::Err<Rich<'a, u8>>;

/// what the implementation did: matched prefix length, or the single error (position, found, expected tokens;
/// '\u{1}' stands for "something else", '\u{2}' for any other pattern)
#[derive(Debug, Clone, PartialEq, Eq)]
enum Obs {
    Match(usize),
    Fail { at: (usize, usize), found: Option<char>, expected: BTreeSet<char> },
    Odd(String),
}

fn pats<'a, T: Copy + Into<u32>>(e: &Rich<'a, T>) -> BTreeSet<char> {
    e.expected()
        .map(|p| match p {
            RichPattern::Token(t) => char::from_u32((**t).into()).unwrap_or('\u{2}'),
            RichPattern::SomethingElse => '\u{1}',
            _ => '\u{2}',
        })
        .collect()
}

fn observe<'a, O, P: Parser<'a, &'a str, O, Ex<'a>> + Clone>(p: &P, s: &'a str) -> (Obs, Obs) {
    let q = p.clone().to_slice().lazy();
    let one = |out: Option<usize>, errs: Vec<Rich<'a, char>>| match (out, errs.as_slice()) {
        (Some(n), []) => Obs::Match(n),
        (None, [e]) => Obs::Fail { at: (e.span().start, e.span().end), found: e.found().copied(), expected: pats(e) },
        (o, es) => Obs::Odd(format!("output {:?} with {} errors", o, es.len())),
    };
    let (o, e) = q.parse(s).into_output_errors();
    let a = one(o.map(|x: &str| x.len()), e);
    let c = q.check(s);
    let ok = c.has_output();
    let ce: Vec<Rich<char>> = c.into_errors();
    // check() has no slice to show: agreement on acceptance and on the error
    let b = match (&a, ok) {
        (Obs::Match(n), true) if ce.is_empty() => Obs::Match(*n),
        _ => one(if ok { Some(usize::MAX) } else { None }, ce),
    };
    (a, b)
}

fn observe_u8<'a, O, P: Parser<'a, &'a [u8], O, ExB<'a>> + Clone>(p: &P, s: &'a [u8]) -> (Obs, Obs) {
    let q = p.clone().to_slice().lazy();
    let one = |out: Option<usize>, errs: Vec<Rich<'a, u8>>| match (out, errs.as_slice()) {
        (Some(n), []) => Obs::Match(n),
        (None, [e]) => Obs::Fail { at: (e.span().start, e.span().end), found: e.found().map(|b| *b as char), expected: pats(e) },
        (o, es) => Obs::Odd(format!("output {:?} with {} errors", o, es.len())),
    };
    let (o, e) = q.parse(s).into_output_errors();
    let a = one(o.map(|x: &[u8]| x.len()), e);
    let c = q.check(s);
    let ok = c.has_output();
    let ce: Vec<Rich<u8>> = c.into_errors();
    let b = match (&a, ok) {
        (Obs::Match(n), true) if ce.is_empty() => Obs::Match(*n),
        _ => one(if ok { Some(usize::MAX) } else { None }, ce),
    };
    (a, b)
}

#[derive(Clone, Copy, PartialEq, Eq, Debug)]
enum Prim {
    OneOf,
    NoneOf,
    Just,
}

/// the definition: `items` is the set (one_of / none_of) or the sequence (just)
fn model(prim: Prim, items: &[char], s: &[char]) -> Obs {
    let tok = |k: usize| s.get(k).copied();
    let span = |k: usize| if k < s.len() { (k, k + 1) } else { (s.len(), s.len()) };
    match prim {
        Prim::OneOf => match tok(0) {
            Some(t) if items.contains(&t) => Obs::Match(1),
            f => Obs::Fail { at: span(0), found: f, expected: items.iter().copied().collect() },
        },
        Prim::NoneOf => match tok(0) {
            Some(t) if !items.contains(&t) => Obs::Match(1),
            f => Obs::Fail { at: span(0), found: f, expected: ['\u{1}'].into_iter().collect() },
        },
        Prim::Just => {
            for (k, it) in items.iter().enumerate() {
                if tok(k) != Some(*it) {
                    return Obs::Fail { at: span(k), found: tok(k), expected: [*it].into_iter().collect() };
                }
            }
            Obs::Match(items.len())
        }
    }
}

fn all_strings(alpha: &[char], l: usize) -> Vec<String> {
    let mut all = vec![String::new()];
    let mut cur = vec![String::new()];
    for _ in 0..l {
        let mut nx = vec![];
        for s in &cur {
            for a in alpha {
                let mut t = s.clone();
                t.push(*a);
                nx.push(t);
            }
        }
        all.extend(nx.iter().cloned());
        cur = nx;
    }
    all
}

struct Run<'r> {
    r: &'r mut UnitResult,
    unit: &'r str,
    inputs: &'r [String],
    distinct: HashSet<(u8, Vec<char>, String)>,
    flavours: BTreeSet<&'static str>,
}

impl<'r> Run<'r> {
    /// one parser on &str against the definition, on every input
    fn go<'a, O, P: Parser<'a, &'a str, O, Ex<'a>> + Clone>(&mut self, flavour: &'static str, prim: Prim, items: &[char], p: P, inputs: &'a [String]) {
        self.flavours.insert(flavour);
        for s in inputs {
            let toks: Vec<char> = s.chars().collect();
            let want = model(prim, items, &toks);
            self.r.cases += 1;
            self.r.validated += 1;
            self.r.states += toks.len() as u64 + 1;
            self.r.transitions += items.len() as u64 + 1;
            let got = catch_unwind(AssertUnwindSafe(|| observe(&p, s.as_str())));
            self.judge(flavour, prim, items, s, want, got.map_err(cvh::e1::panic_msg));
        }
    }
    fn go_u8<'a, O, P: Parser<'a, &'a [u8], O, ExB<'a>> + Clone>(&mut self, flavour: &'static str, prim: Prim, items: &[char], p: P, inputs: &'a [String]) {
        self.flavours.insert(flavour);
        for s in inputs {
            let toks: Vec<char> = s.chars().collect();
            let want = model(prim, items, &toks);
            self.r.cases += 1;
            self.r.validated += 1;
            self.r.states += toks.len() as u64 + 1;
            self.r.transitions += items.len() as u64 + 1;
            let got = catch_unwind(AssertUnwindSafe(|| observe_u8(&p, s.as_bytes())));
            self.judge(flavour, prim, items, s, want, got.map_err(cvh::e1::panic_msg));
        }
    }
    fn judge(&mut self, flavour: &'static str, prim: Prim, items: &[char], s: &str, want: Obs, got: Result<(Obs, Obs), String>) {
        let case = format!("{prim:?}({flavour} of {:?})", items.iter().collect::<String>());
        // diagnostic classification (the verdict is taken against known_findings.json by the orchestrator): a rejected
        // token under one_of(lo..) makes Rich list the members of an unbounded range -> "capacity overflow"
        let unbounded = prim == Prim::OneOf && flavour.starts_with("RangeFrom") && matches!(want, Obs::Fail { .. }) && matches!(&got, Err(m) if m.contains("capacity overflow"));
        let key: &[&str] = if unbounded { &["one_of_unbounded_range_lists_expected"] } else { &[] };
        let mism = |r: &mut UnitResult, _e: &str, unit: &str, case: String, input: &str, detail: String| {
            r.mismatch_count += 1;
            if unbounded {
                *r.counters.entry("explained:one_of_unbounded_range_lists_expected".into()).or_default() += 1;
            }
            let kept_known = r.mismatches.iter().filter(|m| m["explained_by"].as_array().map_or(false, |a| !a.is_empty())).count();
            let kept_other = r.mismatches.len() - kept_known;
            if (unbounded && kept_known < 2) || (!unbounded && kept_other < 20) {
                r.mismatches.push(serde_json::json!({"engine": "seqs", "unit": unit, "case": case, "input": input, "categories": ["seqs"], "detail": detail, "explained_by": key}));
            }
        };
        *self.r.counters.entry(if matches!(want, Obs::Match(_)) { "accepted" } else { "rejected" }.into()).or_default() += 1;
        self.distinct.insert((prim as u8, items.to_vec(), format!("{want:?}")));
        match got {
            Err(m) => mism(self.r, "seqs", self.unit, case, s, format!("panic: {m}")),
            Ok((a, c)) => {
                if a != want {
                    mism(self.r, "seqs", self.unit, case, s, format!("parse gives {a:?}, the definition {want:?}"));
                } else if c != want {
                    mism(self.r, "seqs", self.unit, case, s, format!("check gives {c:?}, parse and the definition {want:?}"));
                }
            }
        }
    }
}

fn leak<T>(v: Vec<T>) -> &'static [T] {
    Box::leak(v.into_boxed_slice())
}

macro_rules! arrays {
    ($run:expr, $prim:expr, $mk:ident, $items:expr, $inputs:expr, $go:ident, $conv:expr) => {{
        let v: Vec<_> = $items.iter().map($conv).collect();
        match v.len() {
            0 => {
                let a: [_; 0] = [];
                $run.$go("[T; 0]", $prim, $items, $mk(a), $inputs);
            }
            1 => {
                let a: [_; 1] = [v[0]];
                $run.$go("[T; 1]", $prim, $items, $mk(a), $inputs);
                let l: &'static [_; 1] = Box::leak(Box::new(a));
                $run.$go("&[T; 1]", $prim, $items, $mk(l), $inputs);
            }
            2 => {
                let a: [_; 2] = [v[0], v[1]];
                $run.$go("[T; 2]", $prim, $items, $mk(a), $inputs);
                let l: &'static [_; 2] = Box::leak(Box::new(a));
                $run.$go("&[T; 2]", $prim, $items, $mk(l), $inputs);
            }
            3 => {
                let a: [_; 3] = [v[0], v[1], v[2]];
                $run.$go("[T; 3]", $prim, $items, $mk(a), $inputs);
                let l: &'static [_; 3] = Box::leak(Box::new(a));
                $run.$go("&[T; 3]", $prim, $items, $mk(l), $inputs);
            }
            _ => {}
        }
    }};
}

/// every flavour that can hold an arbitrary list of tokens, for one primitive (macro: `one_of` / `none_of` / `just`
/// are separate generic functions)
macro_rules! listy {
    ($run:expr, $prim:expr, $mk:ident, $items:expr, $inputs:expr) => {{
        let items: &[char] = $items;
        let st: &'static [char] = leak(items.to_vec());
        let sb: &'static [u8] = leak(items.iter().map(|c| *c as u8).collect());
        let text: &'static str = Box::leak(items.iter().collect::<String>().into_boxed_str());
        $run.go("&[T]", $prim, items, $mk(st), $inputs);
        $run.go("Vec<T>", $prim, items, $mk(st.to_vec()), $inputs);
        $run.go("&str", $prim, items, $mk(text), $inputs);
        $run.go("String", $prim, items, $mk(text.to_string()), $inputs);
        arrays!($run, $prim, $mk, items, $inputs, go, |c: &char| *c);
        $run.go_u8("&[u8]", $prim, items, $mk(sb), $inputs);
        $run.go_u8("Vec<u8>", $prim, items, $mk(sb.to_vec()), $inputs);
        arrays!($run, $prim, $mk, items, $inputs, go_u8, |c: &char| *c as u8);
        if items.len() == 1 {
            $run.go("T", $prim, items, $mk(items[0]), $inputs);
            $run.go("&T", $prim, items, $mk(&st[0]), $inputs);
            $run.go_u8("u8", $prim, items, $mk(sb[0]), $inputs);
            $run.go_u8("&u8", $prim, items, $mk(&sb[0]), $inputs);
        }
    }};
}

/// the flavours that are sets only (no order): accepted by one_of / none_of, not by just
macro_rules! setty {
    ($run:expr, $prim:expr, $mk:ident, $items:expr, $inputs:expr) => {{
        let items: &[char] = $items;
        $run.go("LinkedList<T>", $prim, items, $mk(items.iter().copied().collect::<LinkedList<char>>()), $inputs);
        $run.go("HashSet<T>", $prim, items, $mk(items.iter().copied().collect::<HashSet<char>>()), $inputs);
        $run.go("BTreeSet<T>", $prim, items, $mk(items.iter().copied().collect::<BTreeSet<char>>()), $inputs);
        $run.go_u8("BTreeSet<u8>", $prim, items, $mk(items.iter().map(|c| *c as u8).collect::<BTreeSet<u8>>()), $inputs);
    }};
}

macro_rules! rangy {
    ($run:expr, $prim:expr, $mk:ident, $inputs:expr, with_from = $from:expr) => {{
        for lo in SIG {
            for hi in SIG {
                let half: Vec<char> = (lo..hi).collect();
                let incl: Vec<char> = (lo..=hi).collect();
                $run.go("Range<char>", $prim, &half, $mk(lo..hi), $inputs);
                $run.go("RangeInclusive<char>", $prim, &incl, $mk(lo..=hi), $inputs);
                $run.go_u8("Range<u8>", $prim, &half, $mk(lo as u8..hi as u8), $inputs);
                $run.go_u8("RangeInclusive<u8>", $prim, &incl, $mk(lo as u8..=hi as u8), $inputs);
            }
            if $from {
                // `lo..` has no upper end: as a set its members among the input alphabet are lo..='e'
                let from: Vec<char> = (lo..='e').collect();
                $run.go("RangeFrom<char>", $prim, &from, $mk(lo..), $inputs);
                $run.go_u8("RangeFrom<u8>", $prim, &from, $mk(lo as u8..), $inputs);
            }
        }
    }};
}

pub fn run(unit: &str, thorough: bool, cx: &ShardCtx) -> UnitResult {
    run_filtered(unit, thorough, cx, None)
}

/// `only` = (case, input): keep only the mismatches of that case (replay)
pub fn run_filtered(unit: &str, thorough: bool, cx: &ShardCtx, only: Option<(&str, &str)>) -> UnitResult {
    let mut r = run_all(unit, thorough, cx);
    if let Some((case, input)) = only {
        r.mismatches.retain(|m| m["case"] == case && m["input"] == input);
    }
    r
}

fn run_all(unit: &str, thorough: bool, cx: &ShardCtx) -> UnitResult {
    let mut r = UnitResult { name: unit.to_string(), exhaustive: true, ..Default::default() };
    // one_of over an unbounded range is exercised only where totality is the question (C20)
    let unbounded_one_of = unit.ends_with("+unbounded");
    let set_inputs = all_strings(&SIG, 2);
    let seq_inputs = all_strings(&SIG, if thorough { 4 } else { 3 });
    // all subsets of the alphabet (as sorted lists) and all sequences of length <= 3 (with repeats)
    let subsets: Vec<Vec<char>> = (0u32..32).map(|m| SIG.iter().enumerate().filter(|(i, _)| m >> i & 1 == 1).map(|(_, c)| *c).collect()).collect();
    let seqs: Vec<Vec<char>> = all_strings(&SIG, 3).into_iter().map(|s| s.chars().collect()).collect();
    let mut distinct = 0u64;
    let mut flavours = BTreeSet::new();
    // shards: 0 = one_of, 1 = none_of, 2 = just on lists, 3 = ranges; the rest idle
    if cx.shard < 4 {
        let mut run = Run { r: &mut r, unit, inputs: &set_inputs, distinct: HashSet::new(), flavours: BTreeSet::new() };
        match cx.shard {
            0 => {
                for s in &subsets {
                    listy!(run, Prim::OneOf, one_of, s, &set_inputs);
                    setty!(run, Prim::OneOf, one_of, s, &set_inputs);
                }
            }
            1 => {
                for s in &subsets {
                    listy!(run, Prim::NoneOf, none_of, s, &set_inputs);
                    setty!(run, Prim::NoneOf, none_of, s, &set_inputs);
                }
            }
            2 => {
                for s in &seqs {
                    listy!(run, Prim::Just, just, s, &seq_inputs);
                }
            }
            _ => {
                rangy!(run, Prim::OneOf, one_of, &set_inputs, with_from = unbounded_one_of);
                rangy!(run, Prim::NoneOf, none_of, &set_inputs, with_from = true);
                rangy!(run, Prim::Just, just, &seq_inputs, with_from = false);
            }
        }
        let _ = run.inputs;
        distinct = run.distinct.len() as u64;
        flavours = run.flavours;
    }
    r.distinct_outcomes = distinct;
    r.samples.push(format!("flavours on this shard: {:?}", flavours));
    r.desc = format!(
        "one_of / none_of over all 32 subsets of \"abcde\" and just over all {} sequences of length <= 3, in every list flavour (&[T], Vec, [T; 0..3], &[T; 1..3], &str, String, T, &T, LinkedList, HashSet, BTreeSet; char on &str and u8 on &[u8]), and over all 25 half-open and 25 inclusive ranges (and the 5 unbounded ones for none_of{}), on all {} / {} inputs of length <= 2 / {}: matched prefix, error position, found token and expected set equal the definition (membership / element-wise equality), parse and check",
        seqs.len(),
        if unbounded_one_of { " and one_of" } else { "" },
        set_inputs.len(),
        seq_inputs.len(),
        if thorough { 4 } else { 3 }
    );
    r
}
