include!("../gen.rs");
fn main() {
    generate(2, 6);
}
