//! C09 — Pratt parsing: every operator table (prefix / postfix / left- and right-associative
//! infix, arbitrary and equal powers, declaration order) x every token string, against a
//! textbook binding-power reference; Vec / tuple / boxed table forms must agree.

use chumsky::error::Rich;
use chumsky::pratt::*;
use chumsky::prelude::*;
use cvh::unit::{ShardCtx, Tier, UnitResult};
use serde_json::{json, Value};
use std::collections::{BTreeMap, HashSet};
use std::panic::{catch_unwind, AssertUnwindSafe};

#[derive(Clone, Copy, Debug, PartialEq, Eq, Hash)]
pub enum Kind {
    Pre,
    Post,
    InL,
    InR,
}
#[derive(Clone, Copy, Debug, PartialEq, Eq, Hash)]
pub struct Op {
    pub kind: Kind,
    pub sym: char,
    pub bp: u16,
}

impl Op {
    fn show(&self) -> String {
        format!("{}{}{}", match self.kind { Kind::Pre => "pre", Kind::Post => "post", Kind::InL => "inl", Kind::InR => "inr" }, self.sym, self.bp)
    }
    fn parse(s: &str) -> Option<Op> {
        let (k, rest) = if let Some(r) = s.strip_prefix("pre") {
            (Kind::Pre, r)
        } else if let Some(r) = s.strip_prefix("post") {
            (Kind::Post, r)
        } else if let Some(r) = s.strip_prefix("inl") {
            (Kind::InL, r)
        } else if let Some(r) = s.strip_prefix("inr") {
            (Kind::InR, r)
        } else {
            return None;
        };
        let mut cs = rest.chars();
        let sym = cs.next()?;
        Some(Op { kind: k, sym, bp: cs.as_str().parse().ok()? })
    }
}

/// what an operator symbol looks like in the input: 'P' and 'M' stand for the two-character symbols "++" and "--"
/// (they share a prefix with the one-character operators '+' and '-')
pub fn sym_text(c: char) -> &'static str {
    match c {
        'P' => "++",
        'M' => "--",
        '+' => "+",
        '-' => "-",
        '*' => "*",
        '/' => "/",
        '^' => "^",
        '!' => "!",
        _ => "?",
    }
}
fn at(t: &[char], pos: usize, sym: char) -> Option<usize> {
    let txt = sym_text(sym);
    let n = txt.chars().count();
    if pos + n <= t.len() && t[pos..pos + n].iter().copied().eq(txt.chars()) {
        Some(n)
    } else {
        None
    }
}

pub fn show_table(t: &[Op]) -> String {
    t.iter().map(|o| o.show()).collect::<Vec<_>>().join(" ")
}

// ---- the reference: textbook binding-power loop on a token slice -------------------------------------

fn lp(o: &Op) -> u32 {
    match o.kind {
        Kind::InL => o.bp as u32 * 2,
        Kind::InR => o.bp as u32 * 2 + 1,
        _ => unreachable!(),
    }
}
fn rp(o: &Op) -> u32 {
    match o.kind {
        Kind::InL => o.bp as u32 * 2 + 1,
        Kind::InR => o.bp as u32 * 2,
        _ => unreachable!(),
    }
}

#[derive(Default)]
pub struct RefStats {
    pub steps: u64,
    pub states: HashSet<(usize, u32)>,
    /// an infix operator was left unconsumed because its right operand was missing
    pub dangling: u64,
    /// an operator was refused because it binds too loosely
    pub refused_by_power: u64,
}

/// Returns (end, rendering). Each folded node is rendered with the span its callback must see.
pub fn reference(ops: &[Op], t: &[char], pos: usize, min: u32, st: &mut RefStats) -> Option<(usize, String)> {
    st.steps += 1;
    st.states.insert((pos, min));
    let mut cur: Option<(usize, String)> = None;
    for o in ops.iter().filter(|o| o.kind == Kind::Pre) {
        st.steps += 1;
        if let Some(n) = at(t, pos, o.sym) {
            if let Some((e, r)) = reference(ops, t, pos + n, o.bp as u32 * 2, st) {
                cur = Some((e, format!("({}{})[{}..{}]#{}", sym_text(o.sym), r, pos, e, e)));
                break;
            }
        }
    }
    let (mut p, mut lhs) = match cur {
        Some(c) => c,
        None => {
            if t.get(pos) == Some(&'x') {
                (pos + 1, "x".to_string())
            } else {
                return None;
            }
        }
    };
    'outer: loop {
        for o in ops.iter().filter(|o| o.kind == Kind::Post) {
            st.steps += 1;
            if let Some(n) = at(t, p, o.sym) {
                if o.bp as u32 * 2 + 1 >= min {
                    p += n;
                    lhs = format!("({}{})[{}..{}]#{}", lhs, sym_text(o.sym), pos, p, p);
                    continue 'outer;
                } else {
                    st.refused_by_power += 1;
                }
            }
        }
        for o in ops.iter().filter(|o| matches!(o.kind, Kind::InL | Kind::InR)) {
            st.steps += 1;
            if let Some(n) = at(t, p, o.sym) {
                if lp(o) >= min {
                    if let Some((e, r)) = reference(ops, t, p + n, rp(o), st) {
                        lhs = format!("({}{}{})[{}..{}]#{}", lhs, sym_text(o.sym), r, pos, e, e);
                        p = e;
                        continue 'outer;
                    } else {
                        st.dangling += 1;
                    }
                } else {
                    st.refused_by_power += 1;
                }
            }
        }
        break;
    }
    Some((p, lhs))
}

/// flatten a rendering back to the tokens it was built from
pub fn flatten(r: &str) -> String {
    let mut out = String::new();
    let mut depth_sq = 0;
    for c in r.chars() {
        match c {
            '[' => depth_sq += 1,
            ']' => depth_sq -= 1,
            '(' | ')' => {}
            '#' => {}
            c if depth_sq == 0 && !(c.is_ascii_digit()) => out.push(c),
            _ => {}
        }
    }
    out
}

// ---- the implementation under test -----------------------------------------------------------------------

thread_local! {
    /// how the small binding powers of the enumerated tables are spelt for the implementation: 0 = as they are,
    /// 1 = spread over the whole u16 range by a strictly increasing map (the tree depends on the ORDER of the
    /// powers only, so the reference keeps the small ones)
    pub static POWER_SCALE: std::cell::Cell<u8> = const { std::cell::Cell::new(0) };
}
const SPREAD: [u16; 6] = [0, 20_000, 40_000, 65_535, 65_535, 65_535];
fn scaled(bp: u16) -> u16 {
    match POWER_SCALE.with(|c| c.get()) {
        0 => bp,
        _ => SPREAD[(bp as usize).min(5)],
    }
}


type Ex<'a> = chumsky::extra::Full<Rich<'a, char>, cvh::interp::Track, ()>;
type BOp<'a> = chumsky::pratt::Boxed<'a, 'a, &'a str, String, Ex<'a>>;
type BP<'a> = chumsky::Boxed<'a, 'a, &'a str, String, Ex<'a>>;

fn sp(e: &mut MX<'_, '_>) -> String {
    // the span of the sub-expression being built and the inspector's token count when the callback runs
    let s: SimpleSpan = e.span();
    let n = e.state().count;
    format!("[{}..{}]#{}", s.start, s.end, n)
}

type MX<'a, 'b> = chumsky::input::MapExtra<'a, 'b, &'a str, Ex<'a>>;

macro_rules! mk_pre {
    ($o:expr) => {{
        let o: Op = $o;
        let s = o.sym;
        prefix(scaled(o.bp), just::<_, &'a str, Ex<'a>>(s), move |_, r: String, e: &mut MX<'a, '_>| format!("({s}{r}){}", sp(e)))
    }};
}
macro_rules! mk_post {
    ($o:expr) => {{
        let o: Op = $o;
        let s = o.sym;
        postfix(scaled(o.bp), just::<_, &'a str, Ex<'a>>(s), move |l: String, _, e: &mut MX<'a, '_>| format!("({l}{s}){}", sp(e)))
    }};
}
macro_rules! mk_inf {
    ($o:expr) => {{
        let o: Op = $o;
        let s = o.sym;
        infix(if o.kind == Kind::InR { right(scaled(o.bp)) } else { left(scaled(o.bp)) }, just::<_, &'a str, Ex<'a>>(s), move |l: String, _, r: String, e: &mut MX<'a, '_>| {
            format!("({l}{s}{r}){}", sp(e))
        })
    }};
}

fn is_double(o: &Op) -> bool {
    sym_text(o.sym).len() > 1
}

/// an operator whose symbol is a two-character sequence (`just("++")`)
fn boxed_op_text<'a>(o: Op) -> BOp<'a> {
    let s = sym_text(o.sym);
    let sym = just::<_, &'a str, Ex<'a>>(s).ignored();
    match o.kind {
        Kind::Pre => prefix(scaled(o.bp), sym, move |_, r: String, e: &mut MX<'a, '_>| format!("({s}{r}){}", sp(e))).boxed(),
        Kind::Post => postfix(scaled(o.bp), sym, move |l: String, _, e: &mut MX<'a, '_>| format!("({l}{s}){}", sp(e))).boxed(),
        Kind::InL => infix(left(scaled(o.bp)), sym, move |l: String, _, r: String, e: &mut MX<'a, '_>| format!("({l}{s}{r}){}", sp(e))).boxed(),
        Kind::InR => infix(right(scaled(o.bp)), sym, move |l: String, _, r: String, e: &mut MX<'a, '_>| format!("({l}{s}{r}){}", sp(e))).boxed(),
    }
}

fn boxed_op<'a>(o: Op) -> BOp<'a> {
    if is_double(&o) {
        return boxed_op_text(o);
    }
    match o.kind {
        Kind::Pre => mk_pre!(o).boxed(),
        Kind::Post => mk_post!(o).boxed(),
        Kind::InL | Kind::InR => mk_inf!(o).boxed(),
    }
}

/// The expression parser is run twice from the same position: first under `to_slice().rewind()` - i.e. in CHECK
/// mode, where operators go through their `*_check` entry points - to observe how much it consumes there, then
/// in emit mode for the tree.  A check-mode extent that differs from the tokens of the tree is rendered into
/// the output (and so reported as a mismatch with the reference).
fn finish<'a>(p: impl Parser<'a, &'a str, String, Ex<'a>> + Clone + 'a) -> BP<'a> {
    p.clone()
        .to_slice()
        .rewind()
        .then(p)
        .then(any().repeated().to_slice())
        .map(|((chk, t), rest): ((&str, String), &str)| if chk == flatten(&t) { format!("{t}|{rest}") } else { format!("{t}|{rest} <but in check mode the expression consumed {chk:?}>") })
        .boxed()
}

fn atom<'a>() -> impl Parser<'a, &'a str, String, Ex<'a>> + Clone {
    just::<_, &str, Ex>('x').to("x".to_string())
}
/// an atom that does NOT restore the position itself when it fails (filter leaves the cursor after the
/// rejected token): the operator table has to do all the rewinding
fn atom_nr<'a>() -> impl Parser<'a, &'a str, String, Ex<'a>> + Clone {
    any::<&str, Ex>().filter(|c: &char| *c == 'x').to("x".to_string())
}
/// an operator symbol parser that does not restore the position itself when it fails
fn sym_nr<'a>(s: char) -> impl Parser<'a, &'a str, char, Ex<'a>> + Clone {
    any::<&str, Ex>().filter(move |c: &char| *c == s)
}

/// `atom.pratt(vec![op.boxed(), ..])`
pub fn build_vec<'a>(ops: &[Op]) -> BP<'a> {
    let table: Vec<BOp<'a>> = ops.iter().map(|o| boxed_op(*o)).collect();
    finish(atom().pratt(table))
}

/// `atom.boxed().pratt((op.boxed(), ..))` — tuple of boxed operators, boxed atom
pub fn build_boxed_tuple<'a>(ops: &[Op]) -> Option<BP<'a>> {
    if ops.iter().any(is_double) {
        return None;
    }
    let a = atom_nr().boxed();
    Some(match ops {
        [o1] => finish(a.pratt((boxed_op(*o1),))),
        [o1, o2] => finish(a.pratt((boxed_op(*o1), boxed_op(*o2)))),
        [o1, o2, o3] => finish(a.pratt((boxed_op(*o1), boxed_op(*o2), boxed_op(*o3)))),
        [o1, o2, o3, o4] => finish(a.pratt((boxed_op(*o1), boxed_op(*o2), boxed_op(*o3), boxed_op(*o4)))),
        _ => return None,
    })
}

/// select the concrete (statically typed) operator for a kind
macro_rules! pick {
    ($o:expr, P) => {{
        let o: Op = $o;
        let s = o.sym;
        prefix(scaled(o.bp), sym_nr(s), move |_, r: String, e: &mut MX<'a, '_>| format!("({s}{r}){}", sp(e)))
    }};
    ($o:expr, Q) => {{
        let o: Op = $o;
        let s = o.sym;
        postfix(scaled(o.bp), sym_nr(s), move |l: String, _, e: &mut MX<'a, '_>| format!("({l}{s}){}", sp(e)))
    }};
    ($o:expr, I) => {{
        let o: Op = $o;
        let s = o.sym;
        infix(if o.kind == Kind::InR { right(scaled(o.bp)) } else { left(scaled(o.bp)) }, sym_nr(s), move |l: String, _, r: String, e: &mut MX<'a, '_>| format!("({l}{s}{r}){}", sp(e)))
    }};
}
fn kcode(k: Kind) -> u8 {
    match k {
        Kind::Pre => 0,
        Kind::Post => 1,
        Kind::InL | Kind::InR => 2,
    }
}

/// `atom.pratt((op1, op2, ..))` with statically typed operators: one arm per sequence of operator
/// kinds (39 tuple types for up to three operators).
pub fn build_tuple<'a>(ops: &[Op]) -> Option<BP<'a>> {
    macro_rules! t1 { ($a:ident) => { finish(atom_nr().pratt((pick!(ops[0], $a),))) }; }
    macro_rules! t2 { ($a:ident $b:ident) => { finish(atom_nr().pratt((pick!(ops[0], $a), pick!(ops[1], $b)))) }; }
    macro_rules! t3 { ($a:ident $b:ident $c:ident) => { finish(atom_nr().pratt((pick!(ops[0], $a), pick!(ops[1], $b), pick!(ops[2], $c)))) }; }
    if ops.iter().any(is_double) {
        return None;
    }
    let ks: Vec<u8> = ops.iter().map(|o| kcode(o.kind)).collect();
    Some(match ks.as_slice() {
        [0] => t1!(P),
        [1] => t1!(Q),
        [2] => t1!(I),
        [0, 0] => t2!(P P),
        [0, 1] => t2!(P Q),
        [0, 2] => t2!(P I),
        [1, 0] => t2!(Q P),
        [1, 1] => t2!(Q Q),
        [1, 2] => t2!(Q I),
        [2, 0] => t2!(I P),
        [2, 1] => t2!(I Q),
        [2, 2] => t2!(I I),
        [0, 0, 0] => t3!(P P P),
        [0, 0, 1] => t3!(P P Q),
        [0, 0, 2] => t3!(P P I),
        [0, 1, 0] => t3!(P Q P),
        [0, 1, 1] => t3!(P Q Q),
        [0, 1, 2] => t3!(P Q I),
        [0, 2, 0] => t3!(P I P),
        [0, 2, 1] => t3!(P I Q),
        [0, 2, 2] => t3!(P I I),
        [1, 0, 0] => t3!(Q P P),
        [1, 0, 1] => t3!(Q P Q),
        [1, 0, 2] => t3!(Q P I),
        [1, 1, 0] => t3!(Q Q P),
        [1, 1, 1] => t3!(Q Q Q),
        [1, 1, 2] => t3!(Q Q I),
        [1, 2, 0] => t3!(Q I P),
        [1, 2, 1] => t3!(Q I Q),
        [1, 2, 2] => t3!(Q I I),
        [2, 0, 0] => t3!(I P P),
        [2, 0, 1] => t3!(I P Q),
        [2, 0, 2] => t3!(I P I),
        [2, 1, 0] => t3!(I Q P),
        [2, 1, 1] => t3!(I Q Q),
        [2, 1, 2] => t3!(I Q I),
        [2, 2, 0] => t3!(I I P),
        [2, 2, 1] => t3!(I I Q),
        [2, 2, 2] => t3!(I I I),
        _ => return None,
    })
}

// ---- enumeration ---------------------------------------------------------------------------------------------

pub const SYMS: [char; 6] = ['+', '-', '*', '/', '^', '!'];

/// symbols of the units with two-character operators: "+", "++", "-"
pub const SYMS_DOUBLE: [char; 3] = ['+', 'P', '-'];

pub fn all_ops_over(syms: &[char], npow: u16) -> Vec<Op> {
    let mut v = vec![];
    for k in [Kind::Pre, Kind::Post, Kind::InL, Kind::InR] {
        for s in syms {
            for bp in 0..npow {
                v.push(Op { kind: k, sym: *s, bp });
            }
        }
    }
    v
}

pub fn all_ops(nsym: usize, npow: u16) -> Vec<Op> {
    let mut v = vec![];
    for k in [Kind::Pre, Kind::Post, Kind::InL, Kind::InR] {
        for s in &SYMS[..nsym] {
            for bp in 0..npow {
                v.push(Op { kind: k, sym: *s, bp });
            }
        }
    }
    v
}

/// the idx-th table with exactly `k` operators drawn (with repetition, ordered) from `ops`
pub fn table_at(ops: &[Op], k: usize, mut idx: usize) -> Vec<Op> {
    let mut t = vec![];
    for _ in 0..k {
        t.push(ops[idx % ops.len()]);
        idx /= ops.len();
    }
    t.reverse();
    t
}

pub fn is_unspecified(t: &[Op]) -> bool {
    // one symbol declared both postfix and infix: all postfix operators are tried before any infix one
    // (also when one symbol's text is a prefix of the other's: "+" and "++" can both match at the same place)
    t.iter().any(|a| a.kind == Kind::Post && t.iter().any(|b| matches!(b.kind, Kind::InL | Kind::InR) && (sym_text(b.sym).starts_with(sym_text(a.sym)) || sym_text(a.sym).starts_with(sym_text(b.sym)))))
}

pub fn strings(alpha: &[char], l: usize) -> Vec<String> {
    let mut all = vec![String::new()];
    let mut cur = vec![String::new()];
    for _ in 0..l {
        let mut nx = vec![];
        for s in &cur {
            for a in alpha {
                let mut t = s.clone();
                t.push(*a);
                nx.push(t);
            }
        }
        all.extend(nx.iter().cloned());
        cur = nx;
    }
    all
}

pub struct PrattUnit {
    pub name: String,
    pub nsym: usize,
    pub npow: u16,
    /// tables with exactly these many operators
    pub ks: Vec<usize>,
    pub len: usize,
    /// see POWER_SCALE
    pub scale: u8,
    /// operator symbols "+", "++", "-" (a two-character symbol sharing a prefix with a one-character one); Vec form only
    pub doubles: bool,
}

fn run_one<'a>(p: &BP<'a>, s: &'a str) -> Result<(Option<String>, usize, bool), String> {
    catch_unwind(AssertUnwindSafe(|| {
        let mut st = cvh::interp::Track::default();
        let (o, e) = p.parse_with_state(s, &mut st).into_output_errors();
        let mut st2 = cvh::interp::Track::default();
        let c = p.check_with_state(s, &mut st2);
        // after a successful parse the inspector has seen exactly the whole input
        if o.is_some() && (st.count as usize != s.chars().count() || (st.count, st.hash) != (st2.count, st2.hash)) {
            return (Some("<final inspector state is not the whole input>".to_string()), e.len(), c.has_output());
        }
        (o, e.len(), c.has_output())
    }))
    .map_err(|e| cvh::e1::panic_msg(e))
}

pub fn check_table(t: &[Op], ins: &[String], r: &mut UnitResult, distinct: &mut HashSet<u64>, unit: &str) {
    use std::hash::{Hash, Hasher};
    let forms: Vec<(&str, BP)> = {
        let mut v = vec![("vec", build_vec(t))];
        if let Some(p) = build_tuple(t) {
            v.push(("tuple", p));
        }
        if let Some(p) = build_boxed_tuple(t) {
            v.push(("boxed-tuple", p));
        }
        v
    };
    for s in ins {
        r.cases += 1;
        let toks: Vec<char> = s.chars().collect();
        let mut st = RefStats::default();
        let want = reference(t, &toks, 0, 0, &mut st);
        r.transitions += st.steps;
        r.states += st.states.len() as u64;
        *r.counters.entry("operators_left_unconsumed_for_missing_operand".into()).or_default() += st.dangling;
        *r.counters.entry("operators_refused_by_binding_power".into()).or_default() += st.refused_by_power;
        let want_s = want.as_ref().map(|(e, tree)| format!("{tree}|{}", &s[*e..]));
        if let Some((e, tree)) = &want {
            *r.counters.entry("accepted".into()).or_default() += 1;
            // the reference itself must preserve token order (sanity of the oracle)
            assert_eq!(flatten(tree), s[..*e]);
        } else {
            *r.counters.entry("rejected".into()).or_default() += 1;
        }
        let mut h = std::collections::hash_map::DefaultHasher::new();
        want_s.hash(&mut h);
        if distinct.len() < 200_000 {
            distinct.insert(h.finish());
        }
        if r.samples.len() < 4 && want.is_some() && s.len() >= 4 && r.cases % 7 == 0 {
            r.samples.push(format!("table [{}] on {:?} -> {}", show_table(t), s, want_s.clone().unwrap()));
        }
        for (form, p) in &forms {
            r.validated += 1;
            let got = run_one(p, s.as_str());
            let bad = match &got {
                Err(m) => Some(format!("panic: {m}")),
                Ok((o, nerr, chk)) => {
                    if *o != want_s {
                        Some(format!("parse gave {:?}", o))
                    } else if o.is_some() != *chk {
                        Some(format!("check() accepted={} but parse() accepted={}", chk, o.is_some()))
                    } else if o.is_some() && *nerr != 0 {
                        Some(format!("{nerr} errors on an accepted expression"))
                    } else if let Some(o) = o {
                        // token order: flattening the tree yields the consumed prefix
                        let (tree, rest) = o.rsplit_once('|').unwrap();
                        if format!("{}{}", flatten(tree), rest) != *s {
                            Some("flattened tree is not the consumed token sequence".to_string())
                        } else {
                            None
                        }
                    } else {
                        None
                    }
                }
            };
            if let Some(why) = bad {
                r.mismatch_count += 1;
                if r.mismatches.len() < 20 {
                    r.mismatches.push(json!({
                        "engine": "pratt", "unit": unit, "table": show_table(t), "input": s, "form": form, "power_scale": POWER_SCALE.with(|c| c.get()),
                        "categories": ["pratt"], "detail": format!("{why}; reference {:?}", want_s), "explained_by": [],
                    }));
                }
            }
        }
    }
}

pub fn run_unit(u: &PrattUnit, cx: &ShardCtx) -> UnitResult {
    POWER_SCALE.with(|c| c.set(u.scale));
    let r = run_unit0(u, cx);
    POWER_SCALE.with(|c| c.set(0));
    r
}

fn run_unit0(u: &PrattUnit, cx: &ShardCtx) -> UnitResult {
    let ops = if u.doubles { all_ops_over(&SYMS_DOUBLE, u.npow) } else { all_ops(u.nsym, u.npow) };
    let mut alpha = vec!['x', '?'];
    if u.doubles {
        alpha = vec!['x', '+', '-'];
    } else {
        alpha.extend(&SYMS[..u.nsym]);
    }
    let ins = strings(&alpha, u.len);
    let mut r = UnitResult { name: u.name.clone(), exhaustive: true, ..Default::default() };
    let mut distinct = HashSet::new();
    let mut ntables = 0u64;
    let mut unspec = 0u64;
    let mut gi = 0usize; // global table index across ks
    for &k in &u.ks {
        let n = ops.len().pow(k as u32);
        for idx in 0..n {
            let me = gi % cx.nshards == cx.shard;
            gi += 1;
            if !me {
                continue;
            }
            let t = table_at(&ops, k, idx);
            if is_unspecified(&t) {
                unspec += 1;
                continue;
            }
            if cx.skip.contains(&(gi - 1)) {
                continue;
            }
            (cx.progress)(gi - 1);
            ntables += 1;
            check_table(&t, &ins, &mut r, &mut distinct, &u.name);
        }
    }
    r.counters.insert("tables".into(), ntables);
    r.counters.insert("unspecified_tables_skipped(postfix+infix same symbol)".into(), unspec);
    r.distinct_outcomes = distinct.len() as u64;
    r.desc = format!(
        "Pratt{}: all tables of {:?} operators over {} symbols x {} powers x 4 kinds, on all {} strings over {:?} of length <= {}; forms: Vec<boxed op> (self-rewinding just() atom and symbols), statically typed tuple (<= 3 ops; atom and operator symbols are any().filter(..), which do not restore the position when they fail), tuple of boxed ops with a boxed non-rewinding atom (<= 4 ops)",
        if u.scale == 1 { " (binding powers 0,1,2 spelt 0 / 20000 / 40000 for the implementation, the reference keeps the small ones: only their order matters)" } else { "" },
        u.ks, u.nsym, u.npow, ins.len(), alpha.iter().collect::<String>(), u.len
    );
    r
}

pub fn units(tier: Tier) -> Vec<PrattUnit> {
    let q = tier == Tier::Quick;
    let mut v = vec![
        PrattUnit { name: "pratt-upto2-3sym-3pow".into(), nsym: 3, npow: 3, ks: vec![0, 1, 2], len: if q { 6 } else { 7 }, scale: 0, doubles: false },
        PrattUnit { name: "pratt-3ops-2sym-2pow".into(), nsym: 2, npow: 2, ks: vec![3], len: if q { 6 } else { 8 }, scale: 0, doubles: false },
    ];
    // operator symbols that share a prefix ("+" and "++"): an operator attempt that consumed a token and failed is undone
    v.push(PrattUnit { name: "pratt-upto2-two-character-symbols".into(), nsym: 3, npow: 2, ks: vec![1, 2], len: if q { 6 } else { 7 }, scale: 0, doubles: true });
    // the same tables with their powers spread over the whole u16 range (0, 20000, 40000, 65535): only the order matters
    v.push(PrattUnit { name: "pratt-upto2-3sym-3pow-spread-powers".into(), nsym: 3, npow: 3, ks: vec![1, 2], len: if q { 5 } else { 6 }, scale: 1, doubles: false });
    if !q {
        v.push(PrattUnit { name: "pratt-3ops-2sym-3pow-spread-powers".into(), nsym: 2, npow: 3, ks: vec![3], len: 6, scale: 1, doubles: false });
        v.push(PrattUnit { name: "pratt-3ops-3sym-3pow".into(), nsym: 3, npow: 3, ks: vec![3], len: 6, scale: 0, doubles: false });
        v.push(PrattUnit { name: "pratt-4ops-2sym-2pow".into(), nsym: 2, npow: 2, ks: vec![4], len: 7, scale: 0, doubles: false });
        v.push(PrattUnit { name: "pratt-upto2-6sym-4pow".into(), nsym: 6, npow: 4, ks: vec![1, 2], len: 5, scale: 0, doubles: false });
    }
    v
}

/// C18's share: the inspector state seen by operator fold callbacks (rendered into every node as `#n`) and the final
/// state, with operator symbols that share a prefix - an operator attempt that consumed a token and failed must be
/// undone for the inspector too, also when a later operator of the same round then matches
pub fn units_state(tier: Tier) -> Vec<PrattUnit> {
    let q = tier == Tier::Quick;
    vec![
        PrattUnit { name: "pratt-state-two-character-symbols".into(), nsym: 3, npow: 2, ks: vec![1, 2], len: if q { 6 } else { 7 }, scale: 0, doubles: true },
        PrattUnit { name: "pratt-state-upto2-3sym-2pow".into(), nsym: 3, npow: 2, ks: vec![1, 2], len: if q { 5 } else { 6 }, scale: 0, doubles: false },
    ]
}

/// C07's share: the spans handed to operator fold callbacks (prefix, postfix, infix; Vec, tuple and boxed
/// tables) are rendered into every node of the tree that is compared, so a smaller sweep of the same
/// engine decides "the span of the sub-expression being built".
pub fn units_spans(tier: Tier) -> Vec<PrattUnit> {
    let q = tier == Tier::Quick;
    vec![PrattUnit { name: "pratt-fold-spans-upto2-3sym-2pow".into(), nsym: 3, npow: 2, ks: vec![1, 2], len: if q { 5 } else { 7 }, scale: 0, doubles: false }]
}

pub fn replay(v: &Value) -> Result<Option<String>, String> {
    let t: Vec<Op> = v["table"].as_str().ok_or("no table")?.split_whitespace().map(|s| Op::parse(s).ok_or_else(|| format!("bad op {s}"))).collect::<Result<_, _>>()?;
    let input = v["input"].as_str().ok_or("no input")?.to_string();
    let mut r = UnitResult::default();
    let mut d = HashSet::new();
    POWER_SCALE.with(|c| c.set(v["power_scale"].as_u64().unwrap_or(0) as u8));
    check_table(&t, &[input], &mut r, &mut d, "replay");
    POWER_SCALE.with(|c| c.set(0));
    Ok(r.mismatches.first().map(|m| format!("{}", m["detail"].as_str().unwrap_or(""))))
}

#[allow(dead_code)]
fn _unused(_: BTreeMap<(), ()>) {}
