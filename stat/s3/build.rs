include!("../gen.rs");
fn main() {
    generate(3, 6);
}
