//! C16 — nested inputs: token trees with gapped spans, grammars at each nesting level joined by
//! `inner.nested_in(select_ref!{ Group(ts, eoi) => ts.map(eoi, ..) })`, against a reference that
//! applies the PEG/alt/emission model recursively.

use chumsky::error::{Rich, RichPattern, RichReason};
use chumsky::input::MappedInput;
use chumsky::prelude::*;
use cvh::unit::{ShardCtx, Tier, UnitResult};
use serde_json::{json, Value};
use std::collections::{BTreeSet, HashSet};
use std::panic::{catch_unwind, AssertUnwindSafe};

#[derive(Clone, Debug, PartialEq)]
pub enum Tok {
    A,
    B,
    /// group: inner tokens and the inner end-of-input span
    G(Vec<(Tok, SimpleSpan)>, SimpleSpan),
}
type Sp = (Tok, SimpleSpan);
fn mapper<'a>(t: &'a Sp) -> (&'a Tok, &'a SimpleSpan) {
    (&t.0, &t.1)
}
type MI<'a> = MappedInput<Tok, SimpleSpan, &'a [Sp], fn(&'a Sp) -> (&'a Tok, &'a SimpleSpan)>;
type Ex<'a> = extra::Err<Rich<'a, Tok>>;
type BP<'a> = Boxed<'a, 'a, MI<'a>, Val, Ex<'a>>;

#[derive(Clone, Debug, PartialEq)]
pub enum G {
    JA,
    JB,
    Any,
    End,
    Empty,
    Then(Box<G>, Box<G>),
    Or(Box<G>, Box<G>),
    OrNot(Box<G>),
    Rep(Box<G>),
    Validate(Box<G>),
    Nested(Box<G>),
    /// `a.recover_with(via_parser(f))`
    Recover(Box<G>, Box<G>),
    /// `a.lazy()`: a, then the rest of the (current, possibly nested) input is skipped
    Lazy(Box<G>),
}
use G::*;

#[derive(Clone, Debug, PartialEq)]
pub enum Val {
    U,
    A,
    B,
    Grp,
    P(Box<Val>, Box<Val>),
    O(Option<Box<Val>>),
    L(Vec<Val>),
    N(Box<Val>),
    /// output of a recovery strategy
    R(Box<Val>),
    S(usize, usize, Box<Val>),
}

#[derive(Clone, Debug, PartialEq, Eq, PartialOrd, Ord)]
pub enum Exp {
    A,
    B,
    Any,
    Else,
    End,
}
#[derive(Clone, Debug, PartialEq)]
pub struct Alt {
    pos: usize,
    span: (usize, usize),
    found: Option<String>,
    exp: BTreeSet<Exp>,
    custom: Option<String>,
}
#[derive(Default)]
pub struct World {
    alt: Option<Alt>,
    emitted: Vec<Alt>,
    steps: u64,
    states: u64,
    nested_runs: u64,
    inner_failures_surfaced: u64,
    inner_emissions_surfaced: u64,
    recoveries: u64,
}
impl World {
    fn add(&mut self, new: Alt) {
        self.alt = Some(match self.alt.take() {
            None => new,
            Some(old) => {
                if old.pos == new.pos {
                    let mut o = old;
                    if o.custom.is_none() {
                        if new.custom.is_some() {
                            o.custom = new.custom;
                            o.exp.clear();
                            o.found = None;
                        } else {
                            o.exp.extend(new.exp);
                            if o.found.is_none() {
                                o.found = new.found;
                            }
                        }
                    }
                    o
                } else if old.pos > new.pos {
                    old
                } else {
                    new
                }
            }
        });
    }
}
impl World {
    /// merge a complete error value (the `add_alt_err` path used when an inner input's pending error is
    /// re-homed into the outer input): at an equal position the expected sets are united and the
    /// error already pending keeps its span and `found`
    fn add_err(&mut self, new: Alt) {
        self.alt = Some(match self.alt.take() {
            None => new,
            Some(old) => {
                if old.pos == new.pos {
                    let mut o = old;
                    if o.custom.is_none() {
                        if new.custom.is_some() {
                            o.custom = new.custom;
                            o.exp.clear();
                            o.found = None;
                        } else {
                            o.exp.extend(new.exp);
                        }
                    }
                    o
                } else if old.pos > new.pos {
                    old
                } else {
                    new
                }
            }
        });
    }
}
fn tokname(t: &Tok) -> String {
    match t {
        Tok::A => "A".into(),
        Tok::B => "B".into(),
        Tok::G(..) => "G".into(),
    }
}
/// the span of tokens s..e of a token list whose tokens carry their own spans: first.start..last.end;
/// an empty range is an empty span at the start of the next token (end of input: at eoi)
fn span_of(t: &[Sp], eoi: SimpleSpan, s: usize, e: usize) -> (usize, usize) {
    match t.get(s) {
        Some((_, sp)) => {
            if e > s {
                (sp.start, t[e - 1].1.end)
            } else {
                (sp.start, sp.start)
            }
        }
        None => (eoi.end, eoi.end),
    }
}
fn fail(w: &mut World, t: &[Sp], eoi: SimpleSpan, pos: usize, exp: Exp) {
    let found = t.get(pos).map(|x| tokname(&x.0));
    let span = span_of(t, eoi, pos, if found.is_some() { pos + 1 } else { pos });
    w.add(Alt { pos, span, found, exp: [exp].into_iter().collect(), custom: None });
}
fn eval(g: &G, t: &[Sp], eoi: SimpleSpan, pos: usize, w: &mut World) -> Option<(usize, Val)> {
    w.steps += 1;
    w.states += 1;
    let (e, v) = eval0(g, t, eoi, pos, w)?;
    let sp = span_of(t, eoi, pos, e);
    Some((e, Val::S(sp.0, sp.1, Box::new(v))))
}
fn eval0(g: &G, t: &[Sp], eoi: SimpleSpan, pos: usize, w: &mut World) -> Option<(usize, Val)> {
    match g {
        JA => {
            if matches!(t.get(pos), Some((Tok::A, _))) {
                Some((pos + 1, Val::A))
            } else {
                fail(w, t, eoi, pos, Exp::A);
                None
            }
        }
        JB => {
            if matches!(t.get(pos), Some((Tok::B, _))) {
                Some((pos + 1, Val::B))
            } else {
                fail(w, t, eoi, pos, Exp::B);
                None
            }
        }
        Any => match t.get(pos) {
            Some((Tok::A, _)) => Some((pos + 1, Val::A)),
            Some((Tok::B, _)) => Some((pos + 1, Val::B)),
            Some(_) => Some((pos + 1, Val::Grp)),
            None => {
                fail(w, t, eoi, pos, Exp::Any);
                None
            }
        },
        End => {
            if pos == t.len() {
                Some((pos, Val::U))
            } else {
                fail(w, t, eoi, pos, Exp::End);
                None
            }
        }
        Empty => Some((pos, Val::U)),
        Then(a, b) => {
            let (e1, v1) = eval(a, t, eoi, pos, w)?;
            let (e2, v2) = eval(b, t, eoi, e1, w)?;
            Some((e2, Val::P(Box::new(v1), Box::new(v2))))
        }
        Or(a, b) => {
            let n = w.emitted.len();
            match eval(a, t, eoi, pos, w) {
                Some(r) => Some(r),
                None => {
                    w.emitted.truncate(n);
                    match eval(b, t, eoi, pos, w) {
                        Some(r) => Some(r),
                        None => {
                            w.emitted.truncate(n);
                            None
                        }
                    }
                }
            }
        }
        OrNot(a) => {
            let n = w.emitted.len();
            match eval(a, t, eoi, pos, w) {
                Some((e, v)) => Some((e, Val::O(Some(Box::new(v))))),
                None => {
                    w.emitted.truncate(n);
                    Some((pos, Val::O(None)))
                }
            }
        }
        Rep(a) => {
            let mut p = pos;
            let mut vs = vec![];
            loop {
                let n = w.emitted.len();
                match eval(a, t, eoi, p, w) {
                    Some((e, v)) => {
                        p = e;
                        vs.push(v);
                    }
                    None => {
                        w.emitted.truncate(n);
                        break;
                    }
                }
            }
            Some((p, Val::L(vs)))
        }
        Validate(a) => {
            let (e, v) = eval(a, t, eoi, pos, w)?;
            let sp = span_of(t, eoi, pos, e);
            w.emitted.push(Alt { pos, span: sp, found: None, exp: BTreeSet::new(), custom: Some("V".into()) });
            Some((e, v))
        }
        Recover(a, f) => {
            // transparent on success; else the strategy's output plus ONE emission holding the then-pending
            // primary error; else failure with that error restored
            let n = w.emitted.len();
            if let Some(r) = eval(a, t, eoi, pos, w) {
                return Some(r);
            }
            w.emitted.truncate(n);
            let alt = w.alt.take().expect("model: failure without a pending error");
            match eval(f, t, eoi, pos, w) {
                Some((e, v)) => {
                    let mut a2 = alt;
                    a2.pos = e;
                    w.emitted.push(a2);
                    w.recoveries += 1;
                    Some((e, Val::R(Box::new(v))))
                }
                None => {
                    w.alt = Some(alt);
                    w.emitted.truncate(n);
                    None
                }
            }
        }
        Lazy(a) => {
            // a.then_ignore(any().repeated()): the any() that ends the repetition fails at the end of this input
            let (_, v) = eval(a, t, eoi, pos, w)?;
            fail(w, t, eoi, t.len(), Exp::Any);
            Some((t.len(), v))
        }
        Nested(inner) => match t.get(pos) {
            Some((Tok::G(ts, ieoi), _)) => {
                // the inner grammar runs on exactly the inner token list and must match all of it; the
                // outer input advances by the one group token
                w.nested_runs += 1;
                let old = w.alt.take();
                let mut iw = World::default();
                let r = match eval(inner, ts, *ieoi, 0, &mut iw) {
                    Some((e, v)) => {
                        if e == ts.len() {
                            Some(v)
                        } else {
                            fail(&mut iw, ts, *ieoi, e, Exp::End);
                            None
                        }
                    }
                    None => None,
                };
                w.steps += iw.steps;
                w.states += iw.states;
                w.nested_runs += iw.nested_runs;
                w.recoveries += iw.recoveries;
                w.inner_emissions_surfaced += iw.emitted.len() as u64 + iw.inner_emissions_surfaced;
                w.inner_failures_surfaced += iw.inner_failures_surfaced + if r.is_none() { 1 } else { 0 };
                // emissions inside surface in the outer result; the inner pending error is filed just
                // after the group token and merged by the furthest-wins rule
                w.emitted.extend(iw.emitted.into_iter().map(|mut a| {
                    a.pos = pos + 1;
                    a
                }));
                w.alt = old;
                if let Some(mut a) = iw.alt {
                    a.pos = pos + 1;
                    w.add_err(a);
                }
                r.map(|v| (pos + 1, Val::N(Box::new(v))))
            }
            _ => {
                fail(w, t, eoi, pos, Exp::Else);
                None
            }
        },
    }
}

fn is_straight_line(g: &G) -> bool {
    match g {
        JA | JB | Any | End | Empty => true,
        Then(a, b) => is_straight_line(a) && is_straight_line(b),
        Validate(a) | Nested(a) => is_straight_line(a),
        Or(..) | OrNot(_) | Rep(_) | Recover(..) | Lazy(_) => false,
    }
}

fn probe<'a>(p: BP<'a>) -> BP<'a> {
    p.map_with(|v, e| {
        let s: SimpleSpan = e.span();
        Val::S(s.start, s.end, Box::new(v))
    })
    .boxed()
}
fn build<'a>(g: &G) -> BP<'a> {
    probe(build0(g))
}
fn build0<'a>(g: &G) -> BP<'a> {
    match g {
        JA => just(Tok::A).to(Val::A).boxed(),
        JB => just(Tok::B).to(Val::B).boxed(),
        Any => any()
            .map(|t| match t {
                Tok::A => Val::A,
                Tok::B => Val::B,
                _ => Val::Grp,
            })
            .boxed(),
        End => end().to(Val::U).boxed(),
        Empty => empty().to(Val::U).boxed(),
        Then(a, b) => build(a).then(build(b)).map(|(a, b)| Val::P(Box::new(a), Box::new(b))).boxed(),
        Or(a, b) => build(a).or(build(b)).boxed(),
        OrNot(a) => build(a).or_not().map(|o| Val::O(o.map(Box::new))).boxed(),
        Rep(a) => build(a).repeated().collect::<Vec<_>>().map(Val::L).boxed(),
        Validate(a) => build(a)
            .validate(|v, e, em| {
                em.emit(Rich::custom(e.span(), "V"));
                v
            })
            .boxed(),
        Recover(a, f) => build(a).recover_with(via_parser(build(f).map(|v| Val::R(Box::new(v))))).boxed(),
        Lazy(a) => build(a).lazy().boxed(),
        Nested(inner) => build(inner)
            .map(|v| Val::N(Box::new(v)))
            .nested_in(select_ref! { Tok::G(ts, eoi) => ts.as_slice().map(*eoi, mapper as fn(&'a Sp) -> (&'a Tok, &'a SimpleSpan)) })
            .boxed(),
    }
}
fn nullable(g: &G) -> bool {
    match g {
        JA | JB | Any | Nested(_) => false,
        End | Empty | OrNot(_) | Rep(_) => true,
        Then(a, b) => nullable(a) && nullable(b),
        Or(a, b) => nullable(a) || nullable(b),
        Validate(a) | Lazy(a) => nullable(a),
        Recover(a, f) => nullable(a) || nullable(f),
    }
}
pub fn grammars(n: usize) -> Vec<G> {
    if n == 1 {
        return vec![JA, JB, Any, End, Empty];
    }
    let mut out = vec![];
    for a in grammars(n - 1) {
        let b = || Box::new(a.clone());
        out.extend([OrNot(b()), Validate(b()), Nested(b())]);
        // lazy() is what makes "a nested parser need not consume its whole nested input" legal: only there
        if !matches!(a, Lazy(_)) {
            out.push(Nested(Box::new(Lazy(b()))));
        }
        if !nullable(&a) {
            out.push(Rep(b()));
        }
    }
    for k in 1..n - 1 {
        for a in grammars(k) {
            for b in grammars(n - 1 - k) {
                out.push(Then(Box::new(a.clone()), Box::new(b.clone())));
                out.push(Or(Box::new(a.clone()), Box::new(b.clone())));
                out.push(Recover(Box::new(a.clone()), Box::new(b.clone())));
            }
        }
    }
    out
}
/// token sequences whose total token count (groups count 1 + their contents) is exactly n
fn trees(n: usize, depth: usize) -> Vec<Vec<Tok>> {
    if n == 0 {
        return vec![vec![]];
    }
    let mut out = vec![];
    for first_size in 1..=n {
        let firsts: Vec<Tok> = if first_size == 1 {
            let mut v = vec![Tok::A, Tok::B];
            if depth > 0 {
                v.push(Tok::G(vec![], (0..0).into()));
            }
            v
        } else if depth > 0 {
            trees(first_size - 1, depth - 1).into_iter().map(|ts| Tok::G(ts.into_iter().map(|t| (t, (0..0).into())).collect(), (0..0).into())).collect()
        } else {
            vec![]
        };
        for f in firsts {
            for rest in trees(n - first_size, depth) {
                let mut v = vec![f.clone()];
                v.extend(rest);
                out.push(v);
            }
        }
    }
    out
}
/// assign gapped spans with a running counter
fn assign(ts: Vec<Tok>, ctr: &mut usize) -> Vec<Sp> {
    ts.into_iter()
        .map(|t| match t {
            Tok::G(inner, _) => {
                let start = *ctr;
                *ctr += 2;
                let inner = assign(inner.into_iter().map(|x| x.0).collect(), ctr);
                let ieoi = *ctr;
                *ctr += 1;
                let end = *ctr;
                *ctr += 1;
                // the inner end-of-input span is NOT zero-width (the usual `map(e.span(), ..)` idiom hands in the
                // whole group's span): only its end is where an empty match at the end of the inner input lies
                (Tok::G(inner, (start + 1..ieoi).into()), (start..end).into())
            }
            t => {
                let s = *ctr;
                *ctr += 3;
                (t, (s..s + 1).into())
            }
        })
        .collect()
}
fn depth_of(ts: &[Sp]) -> usize {
    ts.iter().map(|(t, _)| if let Tok::G(i, _) = t { 1 + depth_of(i) } else { 0 }).max().unwrap_or(0)
}
fn obs(e: &Rich<Tok>) -> Alt {
    let (exp, custom) = match e.reason() {
        RichReason::ExpectedFound { expected, .. } => (
            expected
                .iter()
                .map(|p| match p {
                    RichPattern::Token(t) => {
                        if **t == Tok::A {
                            Exp::A
                        } else {
                            Exp::B
                        }
                    }
                    RichPattern::Any => Exp::Any,
                    RichPattern::SomethingElse => Exp::Else,
                    RichPattern::EndOfInput => Exp::End,
                    _ => Exp::Else,
                })
                .collect(),
            None,
        ),
        RichReason::Custom(m) => (BTreeSet::new(), Some(m.clone())),
    };
    Alt { pos: 0, span: (e.span().start, e.span().end), found: e.found().map(tokname), exp, custom }
}
fn show_toks(ts: &[Sp]) -> String {
    ts.iter()
        .map(|(t, s)| match t {
            Tok::A => format!("A@{}..{}", s.start, s.end),
            Tok::B => format!("B@{}..{}", s.start, s.end),
            Tok::G(i, e) => format!("G@{}..{}[{} eoi@{}..{}]", s.start, s.end, show_toks(i), e.start, e.end),
        })
        .collect::<Vec<_>>()
        .join(" ")
}

/// mismatch categories of this engine; a property alarms on its own projection
pub const CATS: [&str; 7] = ["acceptance", "output", "emissions", "primary_error", "emissions_before_failure", "check_vs_parse", "panic"];

pub fn run_unit(name: &str, n: usize, m: usize, depth: usize, cx: &ShardCtx, only: Option<(&str, &str)>) -> UnitResult {
    run_unit_for(name, n, m, depth, cx, only, &CATS, false)
}

#[allow(clippy::too_many_arguments)]
pub fn run_unit_for(name: &str, n: usize, m: usize, depth: usize, cx: &ShardCtx, only: Option<(&str, &str)>, alarm: &[&str], recover_only: bool) -> UnitResult {
    let mut r = UnitResult { name: name.to_string(), exhaustive: true, ..Default::default() };
    // inputs first (they must outlive the parsers)
    let mut inputs: Vec<(Vec<Sp>, SimpleSpan)> = vec![];
    for k in 0..=m {
        for t in trees(k, depth) {
            let mut c = 1usize;
            let v = assign(t, &mut c);
            inputs.push((v, (c..c + 1).into()));
        }
    }
    let maxdepth = inputs.iter().map(|(t, _)| depth_of(t)).max().unwrap_or(0);
    let mut gs = vec![];
    for size in 1..=n {
        gs.extend(grammars(size));
    }
    let mut distinct = HashSet::new();
    for (gi, g) in gs.iter().enumerate() {
        if gi % cx.nshards != cx.shard || cx.skip.contains(&gi) {
            continue;
        }
        let gname = format!("{g:?}");
        if recover_only && !(gname.contains("Recover") && gname.contains("Nested")) {
            continue;
        }
        if let Some((og, _)) = only {
            if og != gname {
                continue;
            }
        }
        (cx.progress)(gi);
        let p = build(g);
        let straight = is_straight_line(g);
        let has_nested = gname.contains("Nested");
        for (toks, eoi) in &inputs {
            let iname = show_toks(toks);
            if let Some((_, oi)) = only {
                if oi != iname {
                    continue;
                }
            }
            r.cases += 1;
            r.validated += 1;
            let mut w = World::default();
            let res = match eval(g, toks, *eoi, 0, &mut w) {
                Some((e, v)) => {
                    if e == toks.len() {
                        Some(v)
                    } else {
                        fail(&mut w, toks, *eoi, e, Exp::End);
                        None
                    }
                }
                None => None,
            };
            r.transitions += w.steps;
            r.states += w.states;
            *r.counters.entry("nested_parses".into()).or_default() += w.nested_runs;
            *r.counters.entry("inner_failures_surfaced".into()).or_default() += w.inner_failures_surfaced;
            *r.counters.entry("inner_emissions_surfaced".into()).or_default() += w.inner_emissions_surfaced;
            *r.counters.entry("recoveries".into()).or_default() += w.recoveries;
            if has_nested {
                *r.counters.entry(if res.is_some() { "accepted_through_a_nested_parse" } else { "rejected_with_a_nested_grammar" }.into()).or_default() += 1;
            }
            let got = catch_unwind(AssertUnwindSafe(|| {
                let (o, errs) = p.parse(toks.as_slice().map(*eoi, mapper as fn(&Sp) -> (&Tok, &SimpleSpan))).into_output_errors();
                let c = p.check(toks.as_slice().map(*eoi, mapper as fn(&Sp) -> (&Tok, &SimpleSpan)));
                let chk_ok = c.has_output() == o.is_some() && c.into_errors() == errs;
                (o, errs.iter().map(obs).collect::<Vec<Alt>>(), chk_ok)
            }));
            let mut want: Vec<Alt> = w.emitted.iter().cloned().map(|mut a| { a.pos = 0; a }).collect();
            if res.is_none() {
                let mut a = w.alt.clone().expect("model: failure without a pending error");
                a.pos = 0;
                want.push(a);
            }
            {
                use std::hash::{Hash, Hasher};
                let mut h = std::collections::hash_map::DefaultHasher::new();
                format!("{:?}{:?}", res, want).hash(&mut h);
                if distinct.len() < 100_000 {
                    distinct.insert(h.finish());
                }
            }
            let bad = match got {
                Err(e) => Some(("panic", format!("panic: {}", cvh::e1::panic_msg(e)))),
                Ok((o, got, chk_ok)) => {
                    // on a failed parse that went through a backtracking construct only the last (primary)
                    // error is specified; backtracking-free grammars never rewind, so there the whole list is
                    let (gc, wc) = if res.is_none() && !straight && !got.is_empty() { (got[got.len() - 1..].to_vec(), want[want.len() - 1..].to_vec()) } else { (got.clone(), want.clone()) };
                    if o.is_some() != res.is_some() {
                        Some(("acceptance", format!("output {:?}, model {:?}", o, res)))
                    } else if o != res {
                        Some(("output", format!("output {:?}, model {:?}", o, res)))
                    } else if gc != wc {
                        let cat = if res.is_some() {
                            "emissions"
                        } else if gc.last() != wc.last() {
                            "primary_error"
                        } else {
                            "emissions_before_failure"
                        };
                        Some((cat, format!("errors {:?}, model {:?}", got, want)))
                    } else if !chk_ok {
                        Some(("check_vs_parse", "check() disagrees with parse()".into()))
                    } else {
                        None
                    }
                }
            };
            if let Some((cat, why)) = bad {
                *r.counters.entry(format!("mismatch:{cat}")).or_default() += 1;
                if alarm.contains(&cat) {
                    r.mismatch_count += 1;
                    if r.mismatches.len() < 20 {
                        r.mismatches.push(json!({"engine": "nested", "unit": name, "grammar": gname, "input": iname, "categories": [cat], "detail": why, "explained_by": []}));
                    }
                }
            }
            if r.samples.len() < 5 && has_nested && res.is_some() && toks.len() >= 2 {
                r.samples.push(format!("{gname} on [{iname}] -> accepted, {} emission(s)", w.emitted.len()));
            }
        }
    }
    r.distinct_outcomes = distinct.len() as u64;
    r.desc = format!(
        "nested inputs: {} grammars{} (<= {} nodes over just/any/end/empty/then/or/or_not/repeated/validate/recover_with(via_parser)/nested_in/lazy().nested_in) x {} token trees (<= {} tokens, nesting depth <= {}, gapped spans, non-zero-width inner end-of-input spans): outputs with every node's span, complete error list on success (and on failure for backtracking-free grammars; last error otherwise), check() == parse(); alarmed categories {:?}",
        gs.len(), if recover_only { " (those with a recovery and a nested parse)" } else { "" }, n, inputs.len(), m, maxdepth, alarm
    );
    r
}

// =================================================================================================
// recursive token-tree grammars with memoized() at different places: a memoized rule that is active outside a
// nested input is entered again inside it (at inner positions that coincide with outer ones) - memoized() must stay
// the identity
// =================================================================================================

macro_rules! both_forms {
    ($name:expr, |$m:ident| $body:expr) => {{
        let plain: BP = {
            #[allow(unused_macros)]
            macro_rules! $m {
                ($p:expr) => {
                    $p
                };
            }
            $body
        };
        let memo: BP = {
            #[allow(unused_macros)]
            macro_rules! $m {
                ($p:expr) => {
                    $p.memoized()
                };
            }
            $body
        };
        ($name, plain, memo)
    }};
}

fn group_input<'a>() -> impl Parser<'a, MI<'a>, MI<'a>, Ex<'a>> + Clone {
    select_ref! { Tok::G(ts, eoi) => ts.as_slice().map(*eoi, mapper as fn(&'a Sp) -> (&'a Tok, &'a SimpleSpan)) }
}
fn spanned<'a>(p: impl Parser<'a, MI<'a>, Val, Ex<'a>> + Clone + 'a) -> BP<'a> {
    probe(p.boxed())
}

fn in_group<'a>(p: impl Parser<'a, MI<'a>, Val, Ex<'a>> + Clone + 'a) -> BP<'a> {
    p.nested_in(group_input()).map(|v| Val::N(Box::new(v))).boxed()
}
fn many<'a>(p: impl Parser<'a, MI<'a>, Val, Ex<'a>> + Clone + 'a) -> BP<'a> {
    p.repeated().collect::<Vec<_>>().map(Val::L).boxed()
}

pub fn rec_memo_variants<'a>() -> Vec<(&'static str, BP<'a>, BP<'a>)> {
    let a = || just::<_, MI<'a>, Ex<'a>>(Tok::A).to(Val::A);
    let b = || just::<_, MI<'a>, Ex<'a>>(Tok::B).to(Val::B);
    let pair = |(x, y): (Val, Val)| Val::P(Box::new(x), Box::new(y));
    vec![
        both_forms!("tree = (A | B | group(tree*)).memoized()", |m| {
            recursive(|tree| {
                let alts = choice((a(), b(), in_group(many(tree))));
                spanned(m!(alts))
            })
            .boxed()
        }),
        both_forms!("tree = A | B | group(tree*).memoized()", |m| {
            recursive(|tree| {
                let g = in_group(many(tree));
                spanned(choice((a(), b(), m!(g))))
            })
            .boxed()
        }),
        both_forms!("tree = A | B | group(tree.memoized()*)", |m| {
            recursive(|tree| {
                let t = m!(tree);
                spanned(choice((a(), b(), in_group(many(t)))))
            })
            .boxed()
        }),
        both_forms!("sum = atom (B atom)* ; atom = (A | group(sum)).memoized()", |m| {
            recursive(|sum| {
                let at = a().or(in_group(sum));
                let atom = spanned(m!(at));
                spanned(atom.clone().foldl(b().ignore_then(atom).repeated(), |l, r| Val::P(Box::new(l), Box::new(r))))
            })
            .boxed()
        }),
        both_forms!("sum = (atom (B atom)*).memoized() ; atom = A | group(sum)", |m| {
            recursive(|sum| {
                let atom = spanned(a().or(in_group(sum)));
                let s = atom.clone().foldl(b().ignore_then(atom).repeated(), |l, r| Val::P(Box::new(l), Box::new(r)));
                spanned(m!(s))
            })
            .boxed()
        }),
        both_forms!("tree = (validate(A) | B | group(tree A) | group(tree*)).memoized()  [emissions; two alternatives on the same group]", |m| {
            recursive(|tree| {
                let va = a().validate(|v, e, em| {
                    em.emit(Rich::custom(e.span(), "V"));
                    v
                });
                let all = in_group(many(tree.clone()));
                let two = in_group(tree.then(a()).map(pair));
                let alts = choice((va, b(), two, all));
                spanned(m!(alts))
            })
            .boxed()
        }),
    ]
}

type RecObs = Result<(Option<Val>, Vec<Alt>, bool, Vec<Alt>), String>;

fn rec_obs<'a>(p: &BP<'a>, toks: &'a [Sp], eoi: SimpleSpan) -> RecObs {
    catch_unwind(AssertUnwindSafe(|| {
        let (o, errs) = p.parse(toks.map(eoi, mapper as fn(&Sp) -> (&Tok, &SimpleSpan))).into_output_errors();
        let c = p.check(toks.map(eoi, mapper as fn(&Sp) -> (&Tok, &SimpleSpan)));
        let ok = c.has_output();
        (o, errs.iter().map(obs).collect::<Vec<Alt>>(), ok, c.into_errors().iter().map(obs).collect::<Vec<Alt>>())
    }))
    .map_err(cvh::e1::panic_msg)
}

pub fn run_rec_memo(name: &str, m: usize, depth: usize, cx: &ShardCtx, only: Option<(&str, &str)>) -> UnitResult {
    let mut r = UnitResult { name: name.to_string(), exhaustive: true, ..Default::default() };
    let mut inputs: Vec<(Vec<Sp>, SimpleSpan)> = vec![];
    for k in 0..=m {
        for t in trees(k, depth) {
            let mut c = 1usize;
            let v = assign(t, &mut c);
            inputs.push((v, (c..c + 1).into()));
        }
    }
    let vs = rec_memo_variants();
    let mut distinct = HashSet::new();
    let mut case = 0usize;
    for (vname, plain, memo) in &vs {
        for (toks, eoi) in &inputs {
            let me = case % cx.nshards == cx.shard;
            case += 1;
            if !me || cx.skip.contains(&(case - 1)) {
                continue;
            }
            let iname = show_toks(toks);
            if let Some((og, oi)) = only {
                if og != *vname || oi != iname {
                    continue;
                }
            }
            (cx.progress)(case - 1);
            r.cases += 1;
            r.validated += 1;
            r.states += toks.len() as u64 + 1;
            r.transitions += 2;
            let pa = rec_obs(plain, toks.as_slice(), *eoi);
            let pm = rec_obs(memo, toks.as_slice(), *eoi);
            if let Ok((o, e, ..)) = &pa {
                *r.counters.entry(if o.is_some() { "accepted" } else { "rejected" }.into()).or_default() += 1;
                if o.is_some() && depth_of(toks) >= 1 {
                    *r.counters.entry("accepted_with_a_group".into()).or_default() += 1;
                }
                use std::hash::{Hash, Hasher};
                let mut h = std::collections::hash_map::DefaultHasher::new();
                format!("{vname}{o:?}{e:?}").hash(&mut h);
                distinct.insert(h.finish());
                if r.samples.len() < 4 && o.is_some() && depth_of(toks) >= 2 {
                    r.samples.push(format!("{vname} on [{iname}] -> accepted in both forms"));
                }
            }
            let bad = match (&pa, &pm) {
                (Err(e), _) => Some(("panic", format!("plain form panicked: {e}"))),
                (_, Err(e)) => Some(("panic", format!("memoized form panicked: {e}"))),
                (Ok(x), Ok(y)) => {
                    if x.0.is_some() != y.0.is_some() {
                        Some(("acceptance", format!("memoized form gives {:?}, plain form {:?}", y.0, x.0)))
                    } else if x.0 != y.0 {
                        Some(("output", format!("memoized form gives {:?}, plain form {:?}", y.0, x.0)))
                    } else if x.1 != y.1 {
                        Some((if x.0.is_some() { "emissions" } else { "primary_error" }, format!("memoized form reports {:?}, plain form {:?}", y.1, x.1)))
                    } else if (x.2, &x.3) != (y.2, &y.3) || x.2 != x.0.is_some() {
                        Some(("check_vs_parse", format!("check(): memoized form accepted={} {:?}, plain form accepted={} {:?}", y.2, y.3, x.2, x.3)))
                    } else {
                        None
                    }
                }
            };
            if let Some((cat, why)) = bad {
                r.mismatch_count += 1;
                if r.mismatches.len() < 20 {
                    r.mismatches.push(json!({"engine": "nested", "unit": name, "grammar": vname, "input": iname, "categories": [cat], "detail": why, "explained_by": []}));
                }
            }
        }
    }
    r.distinct_outcomes = distinct.len() as u64;
    r.desc = format!("recursive token-tree grammars ({} of them: memoized() on the whole rule, on the nested_in parser, on the recursive reference, on an atom / a sum of an expression grammar, with emissions) vs the same grammar without memoized(), on all {} token trees (<= {} tokens, nesting depth <= {}): output with spans, every error, check()", vs.len(), inputs.len(), m, depth);
    r
}

/// `nested-wide` / `nested-deep`, optionally with a projection suffix: `@emissions` (C05), `@primary` (C06),
/// `@recovery` (C08: only grammars with a recovery and a nested parse; output and every error list)
fn projection(unit: &str) -> (&str, &'static [&'static str], bool) {
    match unit.split_once('@') {
        None => (unit, &CATS, false),
        Some((b, "emissions")) => (b, &["emissions", "emissions_before_failure", "panic"], false),
        Some((b, "primary")) => (b, &["primary_error", "panic"], false),
        Some((b, "recovery")) => (b, &["acceptance", "output", "emissions", "primary_error", "emissions_before_failure", "panic"], true),
        // C03: a nested input is consumed completely too (unless its parser is lazy()), and check() says the same
        Some((b, "contract")) => (b, &["acceptance", "check_vs_parse", "panic"], false),
        Some((b, _)) => (b, &CATS, false),
    }
}

pub fn run(unit: &str, tier: Tier, cx: &ShardCtx) -> UnitResult {
    let q = tier == Tier::Quick;
    let (base, alarm, rec) = projection(unit);
    match base {
        "nested-wide" => run_unit_for(unit, if q { 5 } else { 6 }, if q { 5 } else { 6 }, 2, cx, None, alarm, rec),
        "nested-deep" => run_unit_for(unit, if q { 4 } else { 5 }, if q { 5 } else { 6 }, 4, cx, None, alarm, rec),
        "nested-recursive-memo" => run_rec_memo(unit, if q { 6 } else { 7 }, 4, cx, None),
        _ => panic!("unknown unit {unit}"),
    }
}

pub fn replay(v: &Value) -> Result<Option<String>, String> {
    let unit = v["unit"].as_str().ok_or("no unit")?.to_string();
    let tier = if v["tier"].as_str() == Some("thorough") { Tier::Thorough } else { Tier::Quick };
    let q = tier == Tier::Quick;
    let progress = |_: usize| {};
    let cx = ShardCtx { shard: 0, nshards: 1, known: cvm::sem::Sw::NONE, skip: vec![], progress: &progress };
    let only = Some((v["grammar"].as_str().unwrap_or(""), v["input"].as_str().unwrap_or("")));
    let r = match projection(&unit).0 {
        "nested-recursive-memo" => run_rec_memo(&unit, if q { 6 } else { 7 }, 4, &cx, only),
        "nested-deep" => run_unit(&unit, if q { 4 } else { 5 }, if q { 5 } else { 6 }, 4, &cx, only),
        _ => run_unit(&unit, if q { 5 } else { 6 }, if q { 5 } else { 6 }, 2, &cx, only),
    };
    Ok(r.mismatches.first().map(|m| m["detail"].as_str().unwrap_or("").to_string()))
}
