//! C10 extras: Graphemes inputs, IterInput (an `Input` that is not a `ValueInput`), and
//! E2 — the explicit-state exploration of the input-cursor machine (module `cursor`).

pub mod collects;
pub mod cursor;
pub mod seqs;

use chumsky::error::Rich;
use chumsky::input::IterInput;
use chumsky::prelude::*;
use chumsky::text::{Grapheme, Graphemes};
use cvh::e1::{self, RawObs};
use cvh::interp::{ErrK, ObsErr};
use cvh::unit::{ShardCtx, Tier, UnitResult};
use cvm::ast::{Bounds, Sink, Val, G};
use cvm::sem::{Probes, Sw};
use serde_json::{json, Value};
use std::collections::HashSet;
use std::panic::{catch_unwind, AssertUnwindSafe};
use unicode_segmentation::UnicodeSegmentation;

fn mism(r: &mut UnitResult, engine: &str, unit: &str, case: String, input: &str, detail: String) {
    r.mismatch_count += 1;
    if r.mismatches.len() < 20 {
        r.mismatches.push(json!({"engine": engine, "unit": unit, "case": case, "input": input, "categories": [engine], "detail": detail, "explained_by": []}));
    }
}

// =================================================================================================
// Graphemes
// =================================================================================================

pub const G_ALPHA: [char; 8] = ['a', '\u{301}', '\u{1F1E6}', '\u{200D}', '\u{1F469}', '\r', '\n', 'é'];

type GEx<'a> = extra::Err<Rich<'a, &'a Grapheme>>;

fn one_cluster(c: &str) -> Result<&Grapheme, String> {
    let g = Graphemes::new(c).iter().next().ok_or("empty cluster")?;
    if g.as_str() != c {
        return Err(format!("the single cluster {:?} is split by Graphemes::iter()", c));
    }
    Ok(g)
}

pub fn check_graphemes(s: &str) -> Result<usize, String> {
    let want: Vec<(String, (usize, usize))> = s.grapheme_indices(true).map(|(i, g)| (g.to_string(), (i, i + g.len()))).collect();
    let inp = Graphemes::new(s);
    // 1. the token sequence with spans
    let p = any::<&Graphemes, GEx>().map_with(|g: &Grapheme, e| (g.as_str().to_string(), { let sp: SimpleSpan = e.span(); (sp.start, sp.end) })).repeated().collect::<Vec<_>>();
    let got = p.parse(inp).into_result().map_err(|e| format!("any().repeated() failed on a Graphemes input: {e:?}"))?;
    if got != want {
        return Err(format!("tokens {:?}, extended grapheme clusters {:?}", got, want));
    }
    // 2. the slice of everything is the input, same memory
    let sl = any::<&Graphemes, GEx>().repeated().to_slice().parse(inp).into_result().map_err(|e| format!("{e:?}"))?;
    if sl.as_str().as_ptr() != s.as_ptr() || sl.as_str().len() != s.len() {
        return Err("to_slice() of the whole input is not the caller's buffer".into());
    }
    // 3. representation independence: the same grammar on &Graphemes and on a slice of the reference clusters
    if let Some((g0, _)) = want.first() {
        // a `&Grapheme` for each reference cluster (the constructor is private: wrap each cluster on its own)
        let one = one_cluster;
        let _ = g0;
        let mut clusters: Vec<&Grapheme> = vec![];
        for c in s.graphemes(true) {
            clusters.push(one(c)?);
        }
        let g0: &Grapheme = clusters[0];
        let a = just::<_, &Graphemes, GEx>(g0).repeated().count().then(any().repeated().count()).parse(inp).into_output();
        let b = just::<_, &[&Grapheme], extra::Err<Rich<&Grapheme>>>(g0).repeated().count().then(any().repeated().count()).parse(&clusters[..]).into_output();
        if a != b {
            return Err(format!("just(first cluster)* then any*: &Graphemes gives {:?}, the slice of clusters gives {:?}", a, b));
        }
        // check mode too
        if !any::<&Graphemes, GEx>().repeated().check(inp).has_output() {
            return Err("check() rejected".into());
        }
    }
    Ok(want.len())
}

pub fn run_graphemes(unit: &str, len: usize, cx: &ShardCtx) -> UnitResult {
    let mut r = UnitResult { name: unit.to_string(), exhaustive: true, ..Default::default() };
    let ins = cvm::enumerate::inputs(&G_ALPHA, len);
    let mut distinct = HashSet::new();
    for (i, cs) in ins.iter().enumerate() {
        if i % cx.nshards != cx.shard || cx.skip.contains(&i) {
            continue;
        }
        if i % 64 == 0 {
            (cx.progress)(i);
        }
        let s: String = cs.iter().collect();
        r.cases += 1;
        r.validated += 1;
        match catch_unwind(AssertUnwindSafe(|| check_graphemes(&s))) {
            Ok(Ok(n)) => {
                r.states += n as u64 + 1;
                r.transitions += n as u64 + 1;
                if n < cs.len() {
                    *r.counters.entry("strings_with_a_multi_codepoint_cluster".into()).or_default() += 1;
                }
                distinct.insert((n, cs.len()));
                if r.samples.len() < 4 && n < cs.len() && cs.len() >= 3 {
                    r.samples.push(format!("{:?} -> {} clusters {:?}", s, n, s.graphemes(true).collect::<Vec<_>>()));
                }
            }
            Ok(Err(m)) => mism(&mut r, "graphemes", unit, "clusters".into(), &s, m),
            Err(e) => mism(&mut r, "graphemes", unit, "clusters".into(), &s, format!("panic: {}", e1::panic_msg(e))),
        }
    }
    r.distinct_outcomes = distinct.len() as u64;
    r.desc = format!("Graphemes input: all {} strings of length <= {len} over {:?}: tokens and spans = unicode_segmentation's extended grapheme clusters, to_slice is the caller's buffer, same results as a slice of clusters", ins.len(), G_ALPHA);
    r
}

// =================================================================================================
// IterInput: implements only `Input`, so the grammar class is what `Input` alone supports
// =================================================================================================

type ItIn<'a> = IterInput<std::iter::Cloned<std::slice::Iter<'a, (char, SimpleSpan)>>, SimpleSpan>;
type IEx<'a> = extra::Err<Rich<'a, char>>;
type IBP<'a> = Boxed<'a, 'a, ItIn<'a>, Val, IEx<'a>>;

fn bx(v: Val) -> Box<Val> {
    Box::new(v)
}
fn iprobe<'a>(p: IBP<'a>) -> IBP<'a> {
    p.map_with(|v, e| {
        let s: SimpleSpan = e.span();
        Val::S(s.start, s.end, bx(v))
    })
    .boxed()
}
pub fn ibuild<'a>(g: &G) -> IBP<'a> {
    iprobe(ibuild0(g))
}
fn ibuild0<'a>(g: &G) -> IBP<'a> {
    use G::*;
    match g {
        Just(c) => {
            let c = *c;
            just(c).map(move |_| Val::T(c)).boxed()
        }
        JustSeq(a, c) => {
            let (a, c) = (*a, *c);
            just([a, c]).map(move |_| Val::P(bx(Val::T(a)), bx(Val::T(c)))).boxed()
        }
        End => end().map(|_| Val::U).boxed(),
        Empty => empty().map(|_| Val::U).boxed(),
        Map(a) => ibuild(a).map(|v| Val::M(bx(v))).boxed(),
        To(a) => ibuild(a).to(Val::Z).boxed(),
        Ignored(a) => ibuild(a).ignored().map(|_| Val::U).boxed(),
        TryMap(a) => ibuild(a).try_map(|v, span| if cvm::ast::pred(&v) { Ok(v) } else { Err(Rich::custom(span, "TM")) }).boxed(),
        OrNot(a) => ibuild(a).or_not().map(|o| Val::O(o.map(bx))).boxed(),
        Rewind(a) => ibuild(a).rewind().boxed(),
        ToSpan(a) => ibuild(a).to_span().map(|s: SimpleSpan| Val::Sp(s.start, s.end)).boxed(),
        Validate(a, id) => {
            let id = *id;
            ibuild(a)
                .validate(move |v, e, em| {
                    em.emit(Rich::custom(e.span(), format!("V{id}")));
                    v
                })
                .boxed()
        }
        Rep(a, bd, Sink::Vec) if *bd == Bounds::STAR => ibuild(a).repeated().collect::<Vec<_>>().map(Val::L).boxed(),
        Then(a, c) => ibuild(a).then(ibuild(c)).map(|(a, c)| Val::P(bx(a), bx(c))).boxed(),
        IgnoreThen(a, c) => ibuild(a).ignore_then(ibuild(c)).boxed(),
        ThenIgnore(a, c) => ibuild(a).then_ignore(ibuild(c)).boxed(),
        Or(a, c) => ibuild(a).or(ibuild(c)).boxed(),
        AndIs(a, c) => ibuild(a).and_is(ibuild(c)).boxed(),
        o => panic!("IterInput interpreter: unsupported node {o}"),
    }
}

pub fn k_iter() -> cvm::enumerate::Class {
    use G::*;
    let leaves = vec![Just('a'), Just('b'), JustSeq('a', 'b'), End, Empty];
    let unary: Vec<cvm::enumerate::U1> = vec![
        Box::new(|a| Some(Map(a))),
        Box::new(|a| Some(TryMap(a))),
        Box::new(|a| Some(OrNot(a))),
        Box::new(|a| Some(Rewind(a))),
        Box::new(|a| Some(ToSpan(a))),
        Box::new(|a| Some(Validate(a, 1))),
        Box::new(|a| if cvm::enumerate::nn(&a) { Some(Rep(a, Bounds::STAR, Sink::Vec)) } else { None }),
    ];
    let binary: Vec<cvm::enumerate::U2> = vec![Box::new(|a, c| Some(Then(a, c))), Box::new(|a, c| Some(IgnoreThen(a, c))), Box::new(|a, c| Some(Or(a, c))), Box::new(|a, c| Some(AndIs(a, c)))];
    cvm::enumerate::Class { name: "Kiter", leaves, unary, binary, ternary: vec![] }
}

pub fn run_iter(unit: &str, n: usize, len: usize, cx: &ShardCtx, only: Option<(&str, &str)>) -> UnitResult {
    let mut r = UnitResult { name: unit.to_string(), exhaustive: true, ..Default::default() };
    let ins = cvm::enumerate::inputs(&['a', 'b', 'c'], len);
    // gapped layout: token i spans 3i+1..3i+2, end of input 3n+1..3n+1
    let bufs: Vec<Vec<(char, SimpleSpan)>> = ins.iter().map(|t| t.iter().enumerate().map(|(i, c)| (*c, (3 * i + 1..3 * i + 2).into())).collect()).collect();
    let gs = k_iter().upto(n);
    let probes = Probes { span: true, state: false, ctx: false };
    let mut distinct = HashSet::new();
    let alarm = e1::ACC | e1::VAL | e1::EXT | e1::EMI | e1::EMC | e1::PSP | e1::PFO | e1::PEX | e1::CHK | e1::MAL | e1::NOE | e1::EMF;
    for (gi, g) in gs.iter().enumerate() {
        if gi % cx.nshards != cx.shard || cx.skip.contains(&gi) {
            continue;
        }
        let gname = g.to_string();
        if let Some((og, _)) = only {
            if og != gname {
                continue;
            }
        }
        (cx.progress)(gi);
        let p = ibuild(g);
        let content_mask = if g.contains_not() { !(e1::PSP | e1::PFO | e1::PEX | e1::PCX | e1::EMC) } else { !0 };
        for (ii, toks) in ins.iter().enumerate() {
            let iname: String = toks.iter().collect();
            if let Some((_, oi)) = only {
                if oi != iname {
                    continue;
                }
            }
            r.cases += 1;
            let (m, st) = cvm::sem::parse(g, toks, Sw::NONE, probes);
            r.states += st.states;
            r.transitions += st.steps;
            r.validated += 1;
            *r.counters.entry("empty_span_probes".into()).or_default() += st.empty_spans;
            let n = toks.len();
            let eoi: SimpleSpan = (3 * n + 1..3 * n + 1).into();
            let mk = || IterInput::new(bufs[ii].iter().cloned(), eoi);
            let obs = catch_unwind(AssertUnwindSafe(|| {
                let (out, errs) = p.parse(mk()).into_output_errors();
                let c = p.check(mk());
                let chk_out = c.has_output();
                let oe = |e: &Rich<char>| <Rich<char> as ErrK<&str>>::obs(e);
                RawObs { out, errs: errs.iter().map(oe).collect(), chk_out, chk_errs: c.errors().map(oe).collect(), ..Default::default() }
            }));
            let mut obs = match obs {
                Ok(o) => o,
                Err(e) => RawObs { panic: Some(e1::panic_msg(e)), ..Default::default() },
            };
            let nf = |s: (usize, usize), _off: bool| e1::gapped_norm(n, s);
            let mut bad = 0;
            if let Some(v) = obs.out.as_mut() {
                bad += e1::norm_val(v, &nf, &e1::ident).0;
            }
            for e in obs.errs.iter_mut().chain(obs.chk_errs.iter_mut()) {
                bad += e1::norm_err(e, &nf);
                e.exp.sort_by_key(|x| format!("{x:?}"));
            }
            let mut mask = e1::compare(cvh::interp::EK::Rich, &obs, &m, n);
            if bad > 0 {
                mask |= e1::MAL;
            }
            if obs.panic.is_some() {
                mask |= e1::PAN;
            }
            *r.counters.entry(if m.output.is_some() { "accepted" } else { "rejected" }.into()).or_default() += 1;
            {
                use std::hash::{Hash, Hasher};
                let mut h = std::collections::hash_map::DefaultHasher::new();
                m.output.hash(&mut h);
                m.primary.hash(&mut h);
                if distinct.len() < 100_000 {
                    distinct.insert(h.finish());
                }
            }
            let hit = mask & (alarm | e1::PAN) & content_mask;
            if hit != 0 {
                r.mismatch_count += 1;
                if r.mismatches.len() < 20 {
                    r.mismatches.push(json!({"engine": "iterinput", "unit": unit, "grammar": gname, "input": iname, "categories": e1::cat_names(hit),
                        "detail": format!("impl: out={:?} errs={:?} check=({}, {:?}) panic={:?}\\n model: out={:?} emitted={:?} primary={:?}", obs.out, obs.errs, obs.chk_out, obs.chk_errs, obs.panic, m.output, m.emitted, m.primary), "explained_by": []}));
                }
            }
            if r.samples.len() < 4 && m.output.is_some() && toks.len() >= 2 && st.empty_spans > 0 {
                r.samples.push(format!("{gname} on {iname:?} (IterInput, gapped spans) -> {:?}", m.output));
            }
        }
    }
    r.distinct_outcomes = distinct.len() as u64;
    r.desc = format!("IterInput (tokens carrying gapped spans, an Input that is not a ValueInput): {} grammars of class Kiter (<= {n} nodes: just, just(seq), end, empty under map/try_map/or_not/rewind/to_span/validate/repeated/then/or/and_is) x {} inputs (abc, length <= {len}), every node in a span probe: outputs, every span, complete error lists, check() == parse() equal the reference model's", gs.len(), ins.len());
    r
}

pub fn run(unit: &str, tier: Tier, cx: &ShardCtx) -> UnitResult {
    let q = tier == Tier::Quick;
    match unit {
        "graphemes" => run_graphemes(unit, if q { 4 } else { 6 }, cx),
        "iterinput" => run_iter(unit, if q { 4 } else { 5 }, 4, cx, None),
        "cursor-machine" => cursor::run(unit, if q { 4 } else { 5 }, cx),
        "primitive-seq-flavours" | "primitive-seq-flavours+unbounded" => seqs::run(unit, !q, cx),
        "collect-container-flavours" => collects::run_unit(unit, if q { 5 } else { 6 }, cx),
        "pull-budgets" => pulls::run(unit, if q { &[0, 1, 2, 8, 16, 32, 64, 128] } else { &[0, 1, 2, 8, 16, 32, 64, 128, 256, 512, 1024, 2048] }, cx),
        _ => panic!("unknown unit {unit}"),
    }
}

pub fn replay(v: &Value) -> Result<Option<String>, String> {
    let progress = |_: usize| {};
    let cx = ShardCtx { shard: 0, nshards: 1, known: Sw::NONE, skip: vec![], progress: &progress };
    match v["engine"].as_str().unwrap_or("") {
        "graphemes" => Ok(check_graphemes(v["input"].as_str().unwrap_or("")).err()),
        "iterinput" => {
            let q = v["tier"].as_str() != Some("thorough");
            let r = run_iter("iterinput", if q { 4 } else { 5 }, 4, &cx, Some((v["grammar"].as_str().unwrap_or(""), v["input"].as_str().unwrap_or(""))));
            Ok(r.mismatches.first().map(|m| m["detail"].as_str().unwrap_or("").to_string()))
        }
        "cursor" => cursor::replay(v),
        "pulls" => {
            let tier = if v["tier"].as_str() == Some("thorough") { Tier::Thorough } else { Tier::Quick };
            let r = run("pull-budgets", tier, &cx);
            Ok(r.mismatches.iter().find(|m| m["case"] == v["case"] && m["input"] == v["input"]).map(|m| format!("{} at {}: {}", m["case"].as_str().unwrap_or(""), m["input"].as_str().unwrap_or(""), m["detail"].as_str().unwrap_or(""))))
        }
        "collects" => {
            let tier = if v["tier"].as_str() == Some("thorough") { Tier::Thorough } else { Tier::Quick };
            let r = run("collect-container-flavours", tier, &cx);
            Ok(r.mismatches.iter().find(|m| m["case"] == v["case"] && m["input"] == v["input"]).or(r.mismatches.first()).map(|m| format!("{} on {:?}: {}", m["case"].as_str().unwrap_or(""), m["input"].as_str().unwrap_or(""), m["detail"].as_str().unwrap_or(""))))
        }
        "seqs" => {
            // small unit: re-run it (its four working shards) and look the case up
            let unit = v["unit"].as_str().unwrap_or("primitive-seq-flavours");
            for shard in 0..4 {
                let cx = ShardCtx { shard, nshards: 4, known: Sw::NONE, skip: vec![], progress: &progress };
                let r = seqs::run_filtered(unit, v["tier"].as_str() == Some("thorough"), &cx, Some((v["case"].as_str().unwrap_or(""), v["input"].as_str().unwrap_or(""))));
                if let Some(m) = r.mismatches.first() {
                    return Ok(Some(format!("{} on {:?}: {}", m["case"].as_str().unwrap_or(""), m["input"].as_str().unwrap_or(""), m["detail"].as_str().unwrap_or(""))));
                }
            }
            Ok(None)
        }
        o => Err(format!("unknown engine {o}")),
    }
}

#[allow(dead_code)]
fn _unused(_: ObsErr) {}

// =================================================================================================
// C20: pull budgets — the number of token pulls of the linear grammar families grows linearly
// =================================================================================================

pub mod pulls {
    use super::*;
    use chumsky::input::{ExactSizeInput, Input, ValueInput};
    use chumsky::pratt::*;
    use chumsky::Boxed;
    use std::cell::Cell;

    thread_local! {
        static PULLS: Cell<u64> = const { Cell::new(0) };
        /// a parse that pulls more than this many tokens is stopped (panic, caught by the unit): the budget check must
        /// not itself hang on a parser whose work explodes
        static LIMIT: Cell<u64> = const { Cell::new(u64::MAX) };
    }

    /// `&[char]` that counts every token pull
    #[derive(Clone, Copy)]
    pub struct CountIn<'a>(pub &'a [char]);
    impl<'a> Input<'a> for CountIn<'a> {
        type Cursor = usize;
        type Span = SimpleSpan<usize>;
        type Token = char;
        type MaybeToken = &'a char;
        type Cache = &'a [char];
        fn begin(self) -> (usize, &'a [char]) {
            (0, self.0)
        }
        fn cursor_location(c: &usize) -> usize {
            *c
        }
        unsafe fn next_maybe(this: &mut &'a [char], cursor: &mut usize) -> Option<&'a char> {
            let n = PULLS.with(|p| {
                p.set(p.get() + 1);
                p.get()
            });
            if n > LIMIT.with(|l| l.get()) {
                panic!("pull limit exceeded");
            }
            let t = this.get(*cursor)?;
            *cursor += 1;
            Some(t)
        }
        unsafe fn span(_: &mut &'a [char], range: std::ops::Range<&usize>) -> SimpleSpan<usize> {
            (*range.start..*range.end).into()
        }
    }
    impl<'a> ValueInput<'a> for CountIn<'a> {
        unsafe fn next(this: &mut &'a [char], cursor: &mut usize) -> Option<char> {
            <Self as Input>::next_maybe(this, cursor).copied()
        }
    }
    impl<'a> ExactSizeInput<'a> for CountIn<'a> {
        unsafe fn span_from(this: &mut &'a [char], range: std::ops::RangeFrom<&usize>) -> SimpleSpan<usize> {
            (*range.start..this.len()).into()
        }
    }

    type E<'a> = extra::Err<Rich<'a, char>>;
    type BPc<'a> = Boxed<'a, 'a, CountIn<'a>, usize, E<'a>>;

    /// (name, parser, input generator by size n)
    pub fn families<'a>() -> Vec<(&'static str, BPc<'a>, fn(usize) -> String)> {
        let nd = || {
            just('a')
                .to(0usize)
                .delimited_by(just('('), just(')'))
                .recover_with(via_parser(nested_delimiters('(', ')', [('[', ']'), ('{', '}')], |_| 1usize)))
                .boxed()
        };
        vec![
            // recovery families: their inputs are ill-formed on purpose; (re)scanning is allowed, an explosion is not
            ("!nested_delimiters recovery, a run of unclosed openers", nd(), |n| "(".repeat(n)),
            ("!nested_delimiters recovery, unclosed openers of alternating kinds", nd(), |n| "([{".repeat(n / 3 + 1)),
            ("!nested_delimiters recovery, unclosed openers then tokens", nd(), |n| "(".repeat(n / 2) + &"b".repeat(n / 2)),
            ("nested_delimiters recovery, balanced nest without the expected atom", nd(), |n| "(".repeat(n / 2 + 1) + &")".repeat(n / 2 + 1)),
            ("nested_delimiters recovery, a flat run of groups of the other kinds", nd(), |n| "(".to_string() + &"[]{}".repeat(n / 4) + ")"),
            ("skip_then_retry_until recovery over a run of junk", just('a').to(0usize).recover_with(skip_then_retry_until(any().ignored(), just(';').ignored())).then_ignore(just(';').or_not()).boxed(), |n| "b".repeat(n) + "a"),
            ("!skip_then_retry_until recovery that gives up at the end", just('a').to(0usize).recover_with(skip_then_retry_until(any().ignored(), just(';').ignored())).boxed(), |n| "b".repeat(n)),
            ("separated_by with padded items and recovery of every item", just('a').padded().recover_with(via_parser(none_of(",").repeated().at_least(1).to('a'))).separated_by(just(',')).allow_trailing().count().boxed(), |n| " b ,".repeat(n / 4)),
            ("recursive list of lists", recursive(|r| r.separated_by(just(',')).collect::<Vec<usize>>().delimited_by(just('['), just(']')).map(|v| v.len()).or(just('a').to(0usize))).boxed(), |n| "[".to_string() + &"[a,a],".repeat(n / 6) + "a]"),
            ("choice of three alternatives sharing a long prefix", choice((just('a').repeated().then(just('b')).ignored(), just('a').repeated().then(just('c')).ignored(), just('a').repeated().then(just('d')).ignored())).to(0usize).boxed(), |n| "a".repeat(n) + "d"),
            ("and_is / not look-ahead per item", any().and_is(just(';').not()).repeated().count().then_ignore(just(';')).boxed(), |n| "a".repeat(n) + ";"),
            ("a* (repeated, count)", just('a').repeated().count().boxed(), |n| "a".repeat(n)),
            ("a* collect then b? (repeated + option)", just('a').repeated().collect::<Vec<_>>().then(just('b').or_not()).map(|(v, _)| v.len()).boxed(), |n| "a".repeat(n)),
            ("(ab|a)* (choice with a partially matching first alternative)", just('a').then(just('b')).ignored().or(just('a').ignored()).repeated().count().boxed(), |n| "a".repeat(n)),
            ("a (',' a)* allow_trailing (separated_by)", just('a').separated_by(just(',')).allow_trailing().count().boxed(), |n| "a,".repeat(n)),
            ("a (',' a)* with recovery per item", just('a').recover_with(via_parser(none_of(",").map(|_| 'a'))).separated_by(just(',')).count().boxed(), |n| "b,".repeat(n) + "a"),
            ("(a (',' a)*)? foldl", just('a').to(0usize).foldl(just(',').ignore_then(just('a')).repeated(), |acc, _| acc + 1).boxed(), |n| "a".to_string() + &",a".repeat(n)),
            ("pratt a (+ a)* left assoc", just('a').to(1usize).pratt((infix(left(1), just('+'), |l: usize, _, r: usize, _| l + r),)).boxed(), |n| "a".to_string() + &"+a".repeat(n)),
            ("pratt a (^ a)* right assoc with a prefix", just('a').to(1usize).pratt((infix(right(2), just('^'), |l: usize, _, r: usize, _| l + r), prefix(1, just('-'), |_, r: usize, _| r))).boxed(), |n| "-a".to_string() + &"^a".repeat(n)),
            ("recursive brackets", recursive(|r| r.delimited_by(just('('), just(')')).map(|d: usize| d + 1).or(just('a').to(0usize))).boxed(), |n| "(".repeat(n) + "a" + &")".repeat(n)),
            ("memoized alternatives under repetition", just('a').then(just('b')).ignored().memoized().or(just('a').ignored().memoized()).repeated().count().boxed(), |n| "a".repeat(n)),
            ("skip_until recovery", just('b').to(0usize).recover_with(skip_until(any().ignored(), just(';').ignored(), || 1usize)).boxed(), |n| "a".repeat(n) + ";"),
        ]
    }

    pub fn run(unit: &str, sizes: &[usize], cx: &ShardCtx) -> UnitResult {
        let mut r = UnitResult { name: unit.to_string(), exhaustive: true, ..Default::default() };
        let fams = families();
        let nf = fams.len();
        r.desc = format!("pull budgets: {nf} linear grammar families (repetition, separators, choice with partial matches, recovery, folds, Pratt left/right/prefix, recursion, memoization) on their own inputs of sizes {:?} through a pull-counting Input, parse and check: pulls at most 24(n+1) and at most ~2.6x when the input doubles", sizes);
        if cx.shard != 0 {
            return r;
        }
        for (name, _, gen) in &fams {
            // a leading '!' marks a family whose inputs the grammar must reject (failed recovery)
            let rejects = name.starts_with('!');
            // inputs first, then the parser that reads them
            let bufs: Vec<Vec<char>> = sizes.iter().map(|n| gen(*n).chars().collect()).collect();
            let fams2 = families();
            let p = &fams2.iter().find(|(n, _, _)| n == name).unwrap().1;
            let mut counts: Vec<(usize, u64)> = vec![];
            for b in &bufs {
                r.cases += 1;
                r.validated += 1;
                PULLS.with(|p| p.set(0));
                // far above the budget checked below, far below what an exponential blow-up needs
                LIMIT.with(|l| l.set(4000 * (b.len() as u64 + 1)));
                let res = catch_unwind(AssertUnwindSafe(|| {
                    let a = p.parse(CountIn(&b[..])).has_output();
                    let c = p.check(CountIn(&b[..])).has_output();
                    (a, c)
                }));
                LIMIT.with(|l| l.set(u64::MAX));
                let pulls = PULLS.with(|p| p.get());
                r.states += b.len() as u64 + 1;
                r.transitions += pulls;
                match res {
                    Err(e) => {
                        let m = e1::panic_msg(e);
                        if m.contains("pull limit exceeded") {
                            mism(&mut r, "pulls", unit, name.to_string(), &format!("n={}", b.len()), format!("stopped after {pulls} token pulls on {} tokens (limit 4000(n+1)): the work explodes", b.len()));
                        } else {
                            mism(&mut r, "pulls", unit, name.to_string(), &format!("n={}", b.len()), format!("panic: {m}"));
                        }
                    }
                    Ok((a, c)) => {
                        if a != c {
                            mism(&mut r, "pulls", unit, name.to_string(), &format!("n={}", b.len()), format!("parse (accepted={a}) and check (accepted={c}) disagree"));
                        } else if !rejects && !a {
                            mism(&mut r, "pulls", unit, name.to_string(), &format!("n={}", b.len()), "the family's own well-formed input was rejected".into());
                        } else if rejects && a && b.len() > 1 {
                            mism(&mut r, "pulls", unit, name.to_string(), &format!("n={}", b.len()), "the family's ill-formed input was accepted".into());
                        }
                    }
                }
                counts.push((b.len(), pulls));
            }
            // linear growth: doubling the input at most (a bit more than) doubles the pulls, and the
            // absolute budget is c * (n + 1)
            for w in counts.windows(2) {
                let ((n0, p0), (n1, p1)) = (w[0], w[1]);
                if n0 >= 8 && n1 >= 2 * n0 - 2 && n1 <= 2 * n0 + 4 && (p1 as f64) > 2.6 * (p0 as f64) + 64.0 {
                    mism(&mut r, "pulls", unit, name.to_string(), &format!("n={n0}->{n1}"), format!("token pulls grow faster than linearly: {p0} pulls for {n0} tokens, {p1} for {n1}"));
                }
            }
            if let Some((n, p)) = counts.last() {
                if *p > 24 * (*n as u64 + 1) {
                    mism(&mut r, "pulls", unit, name.to_string(), &format!("n={n}"), format!("{p} token pulls for {n} tokens exceeds the budget 24(n+1)"));
                }
            }
            if r.samples.len() < 6 {
                r.samples.push(format!("{name}: pulls by input length {:?}", counts));
            }
        }
        r.distinct_outcomes = nf as u64 * sizes.len() as u64;
        r
    }
}
