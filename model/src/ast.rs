//! Grammar AST shared by the reference model (`sem`) and the harness interpreter.
//!
//! A `G` is a combinator tree.  All user closures (map/filter/try_map/validate/fold/...)
//! are fixed, total, deterministic functions named by the node kind, so that the model can
//! evaluate exactly the function the implementation is given.

use std::fmt;

pub type Tok = char;

/// What happens to the items of a repetition.
#[derive(Clone, Debug, PartialEq, Eq, Hash, PartialOrd, Ord)]
pub enum Sink {
    /// `.collect::<Vec<_>>()`  ->  `L(items)`
    Vec,
    /// `.count()`  ->  `N(n)`
    Count,
    /// items mapped to their first token (`'?'` if none), `.collect::<String>()` -> `L(T(c)..)`
    Str,
    /// the IterParser used directly as a `Parser<()>` (no collect) -> `U`
    Bare,
    /// `.collect_exactly::<[_; N]>()` -> `L(items)`, N in 0..=3
    Exactly(u8),
    /// `.enumerate().collect::<Vec<_>>()` -> `L(P(N(i), item))`
    Enumerate,
    /// `init.foldl(iter, |acc, x| P(acc, x))`
    Foldl(Box<G>),
    /// `iter.foldr(init, |x, acc| P(x, acc))`
    Foldr(Box<G>),
    /// `init.foldl_with(iter, |acc, x, e| S(e.span(), P(acc, x)))`
    FoldlWith(Box<G>),
    /// `iter.foldr_with(init, |x, acc, e| S(e.span(), P(x, acc)))`
    FoldrWith(Box<G>),
}

#[derive(Clone, Copy, Debug, PartialEq, Eq, Hash, PartialOrd, Ord)]
pub enum Coll {
    /// tuple form: `choice((a, b, ..))`, `group((a, b, ..))`
    Tuple,
    /// `choice(vec![..])`
    Vec,
    /// array form: `choice([..])`, `group([..])`
    Array,
}

/// Repetition bounds. `max == None` means unbounded. `cfg` = the bounds are supplied at
/// parse time through `.configure(|cfg, _| cfg.at_least(min).at_most(max))` on an otherwise
/// unbounded `repeated()`.
#[derive(Clone, Copy, Debug, PartialEq, Eq, Hash, PartialOrd, Ord)]
pub struct Bounds {
    pub min: u8,
    pub max: Option<u8>,
    /// `.exactly(n)` was used (min == max == n); only changes how the parser is *built*.
    pub exactly: bool,
    pub cfg: bool,
}

impl Bounds {
    pub const fn new(min: u8, max: Option<u8>) -> Self {
        Bounds { min, max, exactly: false, cfg: false }
    }
    pub const STAR: Bounds = Bounds::new(0, None);
}

/// One link of an `IterChain`: an iterable parser used as such (not collected on its own).
#[derive(Clone, Debug, PartialEq, Eq, Hash, PartialOrd, Ord)]
pub enum Part {
    /// `item.repeated()` with bounds
    Rep(Box<G>, Bounds),
    /// `item.separated_by(sep)` with bounds, allow_leading, allow_trailing
    Sep(Box<G>, Box<G>, Bounds, bool, bool),
    /// `a.or_not()` used through its `IterParser` impl: yields zero or one item
    Opt(Box<G>),
    /// `a.map(items_of).into_iter()`
    Iter(Box<G>),
    /// a context provider used as an iterable link: `a.ignore_with_ctx(item.repeated()..)` (kind / 3 == 0) or
    /// `a.then_with_ctx(..)`; kind % 3: unbounded / at_most from ctx / exactly from ctx (as in `CtxIter`)
    Ctx(u8, Box<G>, Box<G>),
}

impl Part {
    pub fn children(&self) -> Vec<&G> {
        match self {
            Part::Rep(a, _) | Part::Opt(a) | Part::Iter(a) => vec![a],
            Part::Sep(a, s, ..) | Part::Ctx(_, a, s) => vec![a, s],
        }
    }
    pub fn map(&self, f: &mut dyn FnMut(&G) -> G) -> Part {
        match self {
            Part::Rep(a, x) => Part::Rep(Box::new(f(a)), *x),
            Part::Opt(a) => Part::Opt(Box::new(f(a))),
            Part::Iter(a) => Part::Iter(Box::new(f(a))),
            Part::Ctx(k, a, c) => {
                let a = Box::new(f(a));
                Part::Ctx(*k, a, Box::new(f(c)))
            }
            Part::Sep(a, s, x, l, t) => {
                let a = Box::new(f(a));
                Part::Sep(a, Box::new(f(s)), *x, *l, *t)
            }
        }
    }
}

#[derive(Clone, Debug, PartialEq, Eq, Hash, PartialOrd, Ord)]
pub enum G {
    // ---- leaves -------------------------------------------------------------------------
    Just(Tok),
    JustSeq(Tok, Tok),
    Any,
    OneOf(&'static str),
    NoneOf(&'static str),
    /// `select! { c if set.contains(c) => Tag(c) }`
    Select(&'static str),
    End,
    Empty,
    /// `custom(|inp| { consume k tokens with inp.next(); any missing -> Err; then ok ? Ok : Err })`
    Custom(u8, bool),
    /// `choice(Vec::new())` — always fails, records an expectation-free error
    EmptyChoice,
    /// `any_ref()` (borrowing inputs only): like `any`, the token is handed out by reference
    AnyRef,
    /// `select_ref! { c if set.contains(c) => Tag(c) }` (borrowing inputs only)
    SelectRef(&'static str),
    // ---- unary ---------------------------------------------------------------------------
    Map(Box<G>),
    To(Box<G>),
    Ignored(Box<G>),
    /// `.filter(pred)`, pred = "first token in the value is not 'b'"
    Filter(Box<G>),
    /// `.try_map(|v, span| if pred(v) { Ok(v) } else { Err(custom(span, "TM")) })`
    TryMap(Box<G>),
    /// `.try_map_with(|v, e| if pred(v) { Ok(v) } else { Err(custom(e.span(), "TW")) })`
    TryMapWith(Box<G>),
    /// `a.try_map_with(|v, e| ..)` whose verdict depends on the inspector state it is shown: rejects iff the number of
    /// tokens the inspector has counted is odd (a closure that also runs in check mode, e.g. inside a look-ahead)
    StGuard(Box<G>),
    OrNot(Box<G>),
    Not(Box<G>),
    Rewind(Box<G>),
    /// an explicit extra `.boxed()` (identity)
    Boxed(Box<G>),
    ToSlice(Box<G>),
    ToSpan(Box<G>),
    /// `.validate(|v, e, em| { em.emit(custom(e.span(), "V{id}")); v })`
    Validate(Box<G>, u8),
    /// `.labelled("L")`, `true` = `.as_context()`
    Labelled(Box<G>, bool),
    /// `.map_err(|e| tag(e, "M"))` — span preserving
    MapErr(Box<G>),
    /// `.memoized()`
    Memo(Box<G>),
    /// `.padded()`: skips whitespace tokens before and after (`InputRef::skip_while`)
    Padded(Box<G>),
    /// `.with_state(Track::default())`
    WithState(Box<G>),
    /// `.map(|v| second component of the pair)` (explicit form of ignore_then)
    Snd(Box<G>),
    /// `.map(|v| first component of the pair)` (explicit form of then_ignore)
    Fst(Box<G>),
    /// `.map(|_| U)` (explicit form of ignored / bare repetition)
    MapUnit(Box<G>),
    /// `.map(|_| Z)` (explicit form of to)
    MapZ(Box<G>),
    /// `.map_with(|_, e| slice)` (explicit form of to_slice)
    SliceWith(Box<G>),
    /// `.map_with(|_, e| span)` (explicit form of to_span)
    SpanWith(Box<G>),
    /// `a.try_map(|_, span| Ok(Sp(span)))`: the span handed to a try_map closure, on the successful path
    TryMapSpan(Box<G>),
    /// `.map(|L[o, a, c]| a)` (explicit form of delimited_by / padded_by over group((o, a, c)))
    Mid(Box<G>),
    /// `.lazy()`
    Lazy(Box<G>),
    /// `Ext(W)` where `W: ExtParser` runs the inner parser with `inp.parse(&inner)`; `true` = W has a
    /// hand-written `check` (`inp.check(&inner)`), `false` = the trait's default `check`
    Ext(Box<G>, bool),
    /// `custom(|inp| inp.parse(&inner))`
    CustomNest(Box<G>),
    /// a recursive parser whose body refers to it through `RecRef`; `true` = built with
    /// `Recursive::declare()` / `define()`, `false` = with `recursive(|r| ..)`
    Rec(Box<G>, bool),
    /// reference to an enclosing `Rec`: 0 = the innermost, 1 = the next one out
    RecRef(u8),
    /// `let x = def; body` where `Var` inside `body` is a CLONE of the one parser value built for `def` (so a
    /// `memoized()` in `def` is one memo table entry set shared by all uses); not nested
    Let(Box<G>, Box<G>),
    /// a use of the enclosing `Let`'s parser
    Var,
    Rep(Box<G>, Bounds, Sink),
    // ---- binary / n-ary ---------------------------------------------------------------------
    Then(Box<G>, Box<G>),
    IgnoreThen(Box<G>, Box<G>),
    ThenIgnore(Box<G>, Box<G>),
    Or(Box<G>, Box<G>),
    AndIs(Box<G>, Box<G>),
    PaddedBy(Box<G>, Box<G>),
    /// `a.delimited_by(open, close)`
    DelimitedBy(Box<G>, Box<G>, Box<G>),
    Choice(Coll, Vec<G>),
    Group(Coll, Vec<G>),
    /// `a.recover_with(via_parser(f.map(M)))`
    Recover(Box<G>, Box<G>),
    /// `a.recover_with(skip_until(skip.ignored(), until.ignored(), || F))`
    SkipUntil(Box<G>, Box<G>, Box<G>),
    /// `a.recover_with(skip_then_retry_until(skip.ignored(), until.ignored()))`
    Retry(Box<G>, Box<G>, Box<G>),
    /// `a.recover_with(via_parser(nested_delimiters('(', ')', [('[', ']')], |_| F)))`
    NestedDelims(Box<G>),
    /// item, separator, bounds, allow_leading, allow_trailing, sink
    SepBy(Box<G>, Box<G>, Bounds, bool, bool, Sink),
    // ---- context ------------------------------------------------------------------------------
    /// `g.with_ctx(c)`
    WithCtx(Tok, Box<G>),
    /// `a.map(first_char).then_with_ctx(b)` -> `P(T(c), b)`
    ThenWithCtx(Box<G>, Box<G>),
    /// `a.map(first_char).ignore_with_ctx(b)` -> `b`
    IgnoreWithCtx(Box<G>, Box<G>),
    /// `map_ctx(|c| succ(c), g)` where succ rotates a->b->c->a
    MapCtx(Box<G>),
    /// `just('a').configure(|cfg, ctx| cfg.seq(*ctx))` — matches the context token
    JustCtx,
    /// `item.repeated().configure(|cfg, ctx| cfg.exactly(n(ctx)))`, n: a->1 b->2 c->0, other->3
    RepCtx(Box<G>),
    /// `item.repeated().configure(|cfg, ctx| cfg.at_most(n(ctx)))` — a range taken from the context
    RepCtxMax(Box<G>),
    /// `item.repeated().try_configure(|cfg, ctx, span| if ctx != 'c' { Ok(cfg.exactly(n(ctx))) } else { Err(custom(span, "TC")) })`
    TryRepCtx(Box<G>),
    /// `item.repeated().<static bounds>.configure(|cfg, ctx| cfg.<kind>(n(ctx)))` collected into a Vec: a
    /// configuration that overrides (part of) bounds already set on the parser; kind 0 = exactly, 1 = at_most,
    /// 2 = at_least.  Effective bounds: each configured field replaces the static one.
    RepCtxPre(Box<G>, Bounds, u8),
    /// a repetition configured from the context and used WITHOUT collecting: kind 0/1/2 = `configure(exactly)`,
    /// `configure(at_most)`, `try_configure(exactly, error for 'c')` used directly as a unit parser (-> `U`);
    /// kind 3/4/5 = the same three through `.count()` (-> `N`)
    CtxBare(u8, Box<G>),
    /// `g.map(items_of).into_iter().<sink>`: a parser whose output is iterated (`Parser::into_iter`)
    IntoIter(Box<G>, Sink),
    /// iterable parsers chained with `IterParser for Then` (`p1.then(p2)`, items of p1 followed by the items of
    /// p2; a single link = that iterable used directly), then a sink.  One or two links.
    IterChain(Vec<Part>, Sink),
    /// a context provider used as an ITERABLE parser (`IterParser for IgnoreWithCtx / ThenWithCtx`):
    /// `a.ignore_with_ctx(item.repeated()<bounds>)` (kind / 3 == 0) or `a.then_with_ctx(..)` (== 1), bounds (kind % 3):
    /// none, `configure(at_most(count_of(ctx)))`, `configure(exactly(count_of(ctx)))`; then a sink.  `a` runs in
    /// make_iter (after the initial parser of a left fold), its output is the context of every item
    CtxIter(u8, Box<G>, Box<G>, Sink),
}

pub use G::*;

pub fn b(g: G) -> Box<G> {
    Box::new(g)
}

impl G {
    /// Direct children in evaluation order (including the init parser of fold sinks).
    pub fn children(&self) -> Vec<&G> {
        match self {
            Just(_) | JustSeq(..) | Any | OneOf(_) | NoneOf(_) | Select(_) | End | Empty
            | Custom(..) | EmptyChoice | JustCtx | RecRef(_) | AnyRef | SelectRef(_) | Var => vec![],
            Map(a) | To(a) | Ignored(a) | Filter(a) | TryMap(a) | TryMapWith(a) | StGuard(a) | OrNot(a)
            | Not(a) | Rewind(a) | Boxed(a) | ToSlice(a) | ToSpan(a) | Validate(a, _)
            | Labelled(a, _) | MapErr(a) | Memo(a) | Padded(a) | WithState(a) | NestedDelims(a)
            | WithCtx(_, a) | MapCtx(a) | RepCtx(a) | RepCtxMax(a) | TryRepCtx(a) | RepCtxPre(a, _, _) | CtxBare(_, a) | Snd(a) | Fst(a) | MapUnit(a)
            | MapZ(a) | SliceWith(a) | SpanWith(a) | TryMapSpan(a) | Mid(a) | Lazy(a) | Ext(a, _) | CustomNest(a) | Rec(a, _) => vec![a],
            Rep(a, _, s) | IntoIter(a, s) => {
                let mut v = vec![&**a];
                v.extend(s.child());
                v
            }
            Then(a, c) | IgnoreThen(a, c) | ThenIgnore(a, c) | Or(a, c) | AndIs(a, c)
            | PaddedBy(a, c) | Recover(a, c) | ThenWithCtx(a, c) | IgnoreWithCtx(a, c) | Let(a, c) => {
                vec![a, c]
            }
            DelimitedBy(a, o, c) | SkipUntil(a, o, c) | Retry(a, o, c) => vec![a, o, c],
            Choice(_, v) | Group(_, v) => v.iter().collect(),
            SepBy(a, s, _, _, _, k) => {
                let mut v = vec![&**a, &**s];
                v.extend(k.child());
                v
            }
            IterChain(ps, k) => {
                let mut v: Vec<&G> = ps.iter().flat_map(|p| p.children()).collect();
                v.extend(k.child());
                v
            }
            CtxIter(_, a, c, k) => {
                let mut v = vec![&**a, &**c];
                v.extend(k.child());
                v
            }
        }
    }

    /// Number of combinator nodes.
    pub fn size(&self) -> usize {
        1 + self.children().iter().map(|c| c.size()).sum::<usize>()
    }

    pub fn any_node(&self, f: &dyn Fn(&G) -> bool) -> bool {
        f(self) || self.children().iter().any(|c| c.any_node(f))
    }

    /// No backtracking construct anywhere other than `recover_with`: nothing ever rewinds (apart from primitives
    /// restoring their own position), so the emissions preceding a failure are fully determined.  A
    /// `recover_with` is allowed: where both its parser and its strategy fail it "fails with that same error and
    /// consumes nothing" (C08) - it rewinds past everything either of them emitted - and where the strategy
    /// succeeds the emissions are those of a successful path.
    pub fn is_straight_line(&self) -> bool {
        !self.any_node(&|g| {
            !matches!(
                g,
                Just(_) | JustSeq(..) | Any | OneOf(_) | NoneOf(_) | Select(_) | End | Empty | Custom(..) | JustCtx | AnyRef | SelectRef(_)
                    | Map(_) | To(_) | Ignored(_) | Filter(_) | TryMap(_) | TryMapWith(_) | StGuard(_) | Boxed(_) | ToSlice(_) | ToSpan(_)
                    | Validate(..) | Labelled(..) | MapErr(_) | Memo(_) | Padded(_) | WithState(_) | Snd(_) | Fst(_) | MapUnit(_) | MapZ(_)
                    | SliceWith(_) | SpanWith(_) | TryMapSpan(_) | Mid(_) | Then(..) | IgnoreThen(..) | ThenIgnore(..) | PaddedBy(..)
                    | DelimitedBy(..) | Group(..) | WithCtx(..) | ThenWithCtx(..) | IgnoreWithCtx(..) | MapCtx(_)
                    | Recover(..) | SkipUntil(..) | Retry(..)
            )
        })
    }

    pub fn contains_not(&self) -> bool {
        self.any_node(&|g| matches!(g, Not(_)))
    }

    /// Pre-order list of node addresses (used to give nodes stable indices in a trace).
    pub fn preorder<'a>(&'a self, out: &mut Vec<&'a G>) {
        out.push(self);
        for c in self.children() {
            c.preorder(out);
        }
    }
}

impl Sink {
    pub fn child(&self) -> Option<&G> {
        match self {
            Sink::Foldl(g) | Sink::Foldr(g) | Sink::FoldlWith(g) | Sink::FoldrWith(g) => Some(g),
            _ => None,
        }
    }
}

/// May evaluating `g` reach a `RecRef(k)` (k counted from `g` outwards, `depth` = number of `Rec` nodes
/// entered below the one of interest) before consuming any token?  Conservative (true when unsure).
/// A recursive grammar is *guarded* when its body cannot: a token is consumed before each recursion.
pub fn reaches_ref_unguarded(g: &G, depth: u8) -> bool {
    match g {
        RecRef(k) => *k == depth,
        Rec(a, _) => reaches_ref_unguarded(a, depth + 1),
        Then(a, c) | IgnoreThen(a, c) | ThenIgnore(a, c) => reaches_ref_unguarded(a, depth) || (nullable(a) && reaches_ref_unguarded(c, depth)),
        _ => g.children().iter().any(|c| reaches_ref_unguarded(c, depth)),
    }
}
/// every `Rec` in `g` is guarded, and no `RecRef` escapes its binders
pub fn well_formed_rec(g: &G, binders: u8) -> bool {
    match g {
        RecRef(k) => *k < binders,
        Rec(a, _) => !reaches_ref_unguarded(a, 0) && well_formed_rec(a, binders + 1),
        _ => g.children().iter().all(|c| well_formed_rec(c, binders)),
    }
}

/// Conservative "may succeed without consuming a token" analysis.  The enumerators only put
/// grammars for which this returns `false` under `repeated()`/`separated_by()` (class
/// restriction of C02/C20: chumsky's debug progress assertions fire by design otherwise).
pub fn nullable(g: &G) -> bool {
    match g {
        Just(_) | JustSeq(..) | Any | OneOf(_) | NoneOf(_) | Select(_) | JustCtx | AnyRef | SelectRef(_) => false,
        End | Empty => true,
        Custom(k, ok) => *k % 10 == 0 && *ok,
        EmptyChoice => false,
        Map(a) | To(a) | Ignored(a) | Filter(a) | TryMap(a) | TryMapWith(a) | StGuard(a) | Boxed(a)
        | ToSlice(a) | ToSpan(a) | Validate(a, _) | Labelled(a, _) | MapErr(a) | Memo(a) | Padded(a)
        | WithState(a) | WithCtx(_, a) | MapCtx(a) | Snd(a) | Fst(a) | MapUnit(a) | MapZ(a)
        | SliceWith(a) | SpanWith(a) | TryMapSpan(a) | Mid(a) | Ext(a, _) | CustomNest(a) | Rec(a, _) => nullable(a),
        // conservative: a recursive reference may match the empty string
        RecRef(_) | Var => true,
        Let(_, c) => nullable(c),
        Lazy(_) => true,
        OrNot(_) | Not(_) | Rewind(_) => true,
        Rep(a, bd, sink) => {
            let me = bd.min == 0 || nullable(a);
            match sink {
                Sink::Exactly(n) => *n == 0 || nullable(a),
                Sink::Foldl(i) | Sink::Foldr(i) | Sink::FoldlWith(i) | Sink::FoldrWith(i) => {
                    me && nullable(i)
                }
                _ => me,
            }
        }
        RepCtx(_) | RepCtxMax(_) | TryRepCtx(_) | RepCtxPre(..) | CtxBare(..) => true,
        IntoIter(a, sink) => nullable(a) && sink.child().map(nullable).unwrap_or(true),
        CtxIter(_, a, _, sink) => nullable(a) && sink.child().map(nullable).unwrap_or(true),
        // conservative: every link may yield nothing without consuming
        IterChain(ps, sink) => {
            ps.iter().all(|p| match p {
                Part::Rep(a, bd) | Part::Sep(a, _, bd, _, _) => bd.min == 0 || nullable(a),
                Part::Opt(_) => true,
                Part::Iter(a) | Part::Ctx(_, a, _) => nullable(a),
            }) && sink.child().map(nullable).unwrap_or(true)
        }
        SepBy(a, _, bd, _, _, sink) => {
            let me = bd.min == 0 || nullable(a);
            match sink {
                Sink::Exactly(n) => *n == 0 || nullable(a),
                Sink::Foldl(i) | Sink::Foldr(i) | Sink::FoldlWith(i) | Sink::FoldrWith(i) => {
                    me && nullable(i)
                }
                _ => me,
            }
        }
        Then(a, c) | IgnoreThen(a, c) | ThenIgnore(a, c) | ThenWithCtx(a, c)
        | IgnoreWithCtx(a, c) => nullable(a) && nullable(c),
        Or(a, c) => nullable(a) || nullable(c),
        AndIs(a, _) => nullable(a),
        PaddedBy(a, p) => nullable(a) && nullable(p),
        DelimitedBy(a, o, c) => nullable(a) && nullable(o) && nullable(c),
        Choice(_, v) => v.iter().any(nullable),
        Group(_, v) => v.iter().all(nullable),
        Recover(a, f) => nullable(a) || nullable(f),
        SkipUntil(..) | Retry(..) => true,
        NestedDelims(a) => nullable(a),
    }
}

// ---------------------------------------------------------------------------------------------
// Values
// ---------------------------------------------------------------------------------------------

#[derive(Clone, Debug, PartialEq, Eq, Hash)]
pub enum Val {
    U,
    T(Tok),
    /// pair
    P(Box<Val>, Box<Val>),
    O(Option<Box<Val>>),
    /// `map` wrapper
    M(Box<Val>),
    L(Vec<Val>),
    N(usize),
    /// span probe: (start, end) in *token indices* after normalisation, then the value
    S(usize, usize, Box<Val>),
    /// state probe: inspector (count, hash) observed at the end of the node
    Q(u32, u64, Box<Val>),
    /// context probe
    Cx(Tok, Box<Val>),
    /// `to_slice`: (start token index, text)
    Sl(usize, String),
    /// `to_span`
    Sp(usize, usize),
    /// fallback marker of a recovery strategy
    F,
    /// `select!` output
    Tag(Tok),
    /// `to(..)` constant
    Z,
}

pub fn first_tok(v: &Val) -> Option<Tok> {
    match v {
        Val::U | Val::N(_) | Val::Sp(..) | Val::F | Val::Z => None,
        Val::T(c) | Val::Tag(c) => Some(*c),
        Val::P(a, b) => first_tok(a).or_else(|| first_tok(b)),
        Val::O(o) => o.as_ref().and_then(|v| first_tok(v)),
        Val::M(v) | Val::S(_, _, v) | Val::Q(_, _, v) | Val::Cx(_, v) => first_tok(v),
        Val::L(vs) => vs.iter().find_map(first_tok),
        Val::Sl(_, s) => s.chars().next(),
    }
}

/// projections used by the explicit formulations (total: a non-matching shape is returned unchanged)
pub fn snd_of(v: Val) -> Val {
    match v {
        Val::P(_, b) => *b,
        o => o,
    }
}
pub fn fst_of(v: Val) -> Val {
    match v {
        Val::P(a, _) => *a,
        o => o,
    }
}
pub fn mid_of(v: Val) -> Val {
    match v {
        Val::L(mut vs) if vs.len() == 3 => vs.remove(1),
        o => o,
    }
}
/// `collect::<String>()` item mapper
pub fn char_of(v: &Val) -> char {
    first_tok(v).unwrap_or('?')
}

/// The predicate used by `filter`, `try_map`, `try_map_with`: reject iff the first token in
/// the value is `b`.
pub fn pred(v: &Val) -> bool {
    first_tok(v) != Some('b')
}

/// The items a value is iterated as by `IntoIter`: the elements of a list, anything else is one item.
pub fn items_of(v: Val) -> Vec<Val> {
    match v {
        Val::L(v) => v,
        // the probes the harness wraps around every node's value are looked through
        Val::S(_, _, inner) | Val::Q(_, _, inner) | Val::Cx(_, inner) => items_of(*inner),
        // an optional value iterates as zero or one item (like `Option`)
        Val::O(None) => vec![],
        Val::O(Some(v)) => vec![*v],
        o => vec![o],
    }
}

/// Effective bounds of `RepCtxPre`: the configured field(s) replace the static ones.
pub fn pre_effective(st: &Bounds, kind: u8, n: u8) -> (u8, Option<u8>) {
    match kind {
        0 => (n, Some(n)),
        1 => (st.min, Some(n)),
        _ => (n, st.max),
    }
}

/// The context derived from a provider's output (`then_with_ctx` / `ignore_with_ctx`).
pub fn ctx_of(v: &Val) -> Tok {
    first_tok(v).unwrap_or('a')
}

/// `map_ctx` mapper.
pub fn succ(c: Tok) -> Tok {
    match c {
        'a' => 'b',
        'b' => 'c',
        'c' => 'a',
        o => o,
    }
}

/// repeat count configured from a context token (`RepCtx`).
pub fn count_of(c: Tok) -> usize {
    match c {
        'a' => 1,
        'b' => 2,
        'c' => 0,
        // a count far beyond anything that could be stored (a corrupt / hostile length prefix)
        'e' => usize::MAX / 4,
        _ => 3,
    }
}

/// the same count as the reference model uses it: more than any enumerated input is long
pub fn count_u8(c: Tok) -> u8 {
    count_of(c).min(255) as u8
}

/// The inspector fold: state after feeding `toks`.
pub fn track_fold(toks: &[Tok]) -> (u32, u64) {
    let mut h = 0xcbf29ce484222325u64;
    for t in toks {
        h = track_step(h, *t);
    }
    (toks.len() as u32, h)
}

pub fn track_step(h: u64, t: Tok) -> u64 {
    (h ^ (t as u64)).wrapping_mul(0x100000001b3)
}

// ---------------------------------------------------------------------------------------------
// Compact textual rendering (used in replay files and evidence samples) and its parser
// ---------------------------------------------------------------------------------------------

impl fmt::Display for G {
    fn fmt(&self, f: &mut fmt::Formatter<'_>) -> fmt::Result {
        fn bd(f: &mut fmt::Formatter<'_>, x: &Bounds) -> fmt::Result {
            write!(f, "{}", x.min)?;
            match x.max {
                Some(m) => write!(f, "..{}", m)?,
                None => write!(f, "..")?,
            }
            if x.exactly {
                write!(f, "!")?;
            }
            if x.cfg {
                write!(f, "@")?;
            }
            Ok(())
        }
        fn sink(f: &mut fmt::Formatter<'_>, s: &Sink) -> fmt::Result {
            match s {
                Sink::Vec => write!(f, "vec"),
                Sink::Count => write!(f, "count"),
                Sink::Str => write!(f, "string"),
                Sink::Bare => write!(f, "bare"),
                Sink::Exactly(n) => write!(f, "exactly{}", n),
                Sink::Enumerate => write!(f, "enumerate"),
                Sink::Foldl(g) => write!(f, "foldl({})", g),
                Sink::Foldr(g) => write!(f, "foldr({})", g),
                Sink::FoldlWith(g) => write!(f, "foldl_with({})", g),
                Sink::FoldrWith(g) => write!(f, "foldr_with({})", g),
            }
        }
        match self {
            Just(c) => write!(f, "just({})", c),
            JustSeq(a, c) => write!(f, "justseq({}{})", a, c),
            Any => write!(f, "any"),
            AnyRef => write!(f, "any_ref"),
            SelectRef(s) => write!(f, "select_ref({})", s),
            OneOf(s) => write!(f, "one_of({})", s),
            NoneOf(s) => write!(f, "none_of({})", s),
            Select(s) => write!(f, "select({})", s),
            End => write!(f, "end"),
            Empty => write!(f, "empty"),
            Custom(k, ok) => write!(f, "custom({},{})", k, if *ok { "ok" } else { "err" }),
            EmptyChoice => write!(f, "empty_choice"),
            Map(a) => write!(f, "map({})", a),
            To(a) => write!(f, "to({})", a),
            Ignored(a) => write!(f, "ignored({})", a),
            Filter(a) => write!(f, "filter({})", a),
            TryMap(a) => write!(f, "try_map({})", a),
            TryMapWith(a) => write!(f, "try_map_with({})", a),
            StGuard(a) => write!(f, "state_guard({})", a),
            OrNot(a) => write!(f, "or_not({})", a),
            Not(a) => write!(f, "not({})", a),
            Rewind(a) => write!(f, "rewind({})", a),
            Boxed(a) => write!(f, "boxed({})", a),
            ToSlice(a) => write!(f, "to_slice({})", a),
            ToSpan(a) => write!(f, "to_span({})", a),
            Validate(a, id) => write!(f, "validate{}({})", id, a),
            Labelled(a, c) => write!(f, "{}({})", if *c { "labelled_ctx" } else { "labelled" }, a),
            MapErr(a) => write!(f, "map_err({})", a),
            Memo(a) => write!(f, "memoized({})", a),
            Padded(a) => write!(f, "padded({})", a),
            WithState(a) => write!(f, "with_state({})", a),
            Snd(a) => write!(f, "snd({})", a),
            Fst(a) => write!(f, "fst({})", a),
            MapUnit(a) => write!(f, "map_unit({})", a),
            MapZ(a) => write!(f, "map_z({})", a),
            SliceWith(a) => write!(f, "slice_with({})", a),
            SpanWith(a) => write!(f, "span_with({})", a),
            TryMapSpan(a) => write!(f, "try_map_span({})", a),
            Mid(a) => write!(f, "mid({})", a),
            Lazy(a) => write!(f, "lazy({})", a),
            Ext(a, own) => write!(f, "{}({})", if *own { "ext_own_check" } else { "ext_default_check" }, a),
            CustomNest(a) => write!(f, "custom_nest({})", a),
            Rec(a, d) => write!(f, "{}({})", if *d { "rec_declare" } else { "rec" }, a),
            RecRef(k) => write!(f, "rec_ref{}", k),
            Var => write!(f, "var"),
            Let(a, c) => write!(f, "let({},{})", a, c),
            Rep(a, x, s) => {
                write!(f, "repeated[")?;
                bd(f, x)?;
                write!(f, ";")?;
                sink(f, s)?;
                write!(f, "]({})", a)
            }
            Then(a, c) => write!(f, "then({},{})", a, c),
            IgnoreThen(a, c) => write!(f, "ignore_then({},{})", a, c),
            ThenIgnore(a, c) => write!(f, "then_ignore({},{})", a, c),
            Or(a, c) => write!(f, "or({},{})", a, c),
            AndIs(a, c) => write!(f, "and_is({},{})", a, c),
            PaddedBy(a, c) => write!(f, "padded_by({},{})", a, c),
            DelimitedBy(a, o, c) => write!(f, "delimited_by({},{},{})", a, o, c),
            Choice(k, v) | Group(k, v) => {
                let n = if matches!(self, Choice(..)) { "choice" } else { "group" };
                let k = match k {
                    Coll::Tuple => "t",
                    Coll::Vec => "v",
                    Coll::Array => "a",
                };
                write!(f, "{}_{}(", n, k)?;
                for (i, g) in v.iter().enumerate() {
                    if i > 0 {
                        write!(f, ",")?;
                    }
                    write!(f, "{}", g)?;
                }
                write!(f, ")")
            }
            Recover(a, c) => write!(f, "recover({},{})", a, c),
            SkipUntil(a, o, c) => write!(f, "skip_until({},{},{})", a, o, c),
            Retry(a, o, c) => write!(f, "retry({},{},{})", a, o, c),
            NestedDelims(a) => write!(f, "nested_delims({})", a),
            SepBy(a, s, x, l, t, k) => {
                write!(f, "separated_by[")?;
                bd(f, x)?;
                write!(f, ";{}{};", if *l { "L" } else { "-" }, if *t { "T" } else { "-" })?;
                sink(f, k)?;
                write!(f, "]({},{})", a, s)
            }
            WithCtx(c, a) => write!(f, "with_ctx[{}]({})", c, a),
            ThenWithCtx(a, c) => write!(f, "then_with_ctx({},{})", a, c),
            IgnoreWithCtx(a, c) => write!(f, "ignore_with_ctx({},{})", a, c),
            MapCtx(a) => write!(f, "map_ctx({})", a),
            JustCtx => write!(f, "just_ctx"),
            RepCtx(a) => write!(f, "rep_ctx({})", a),
            RepCtxMax(a) => write!(f, "rep_ctx_max({})", a),
            TryRepCtx(a) => write!(f, "try_rep_ctx({})", a),
            RepCtxPre(a, x, k) => {
                write!(f, "rep_ctx_pre[")?;
                bd(f, x)?;
                write!(f, ";{}]({})", k, a)
            }
            CtxBare(k, a) => write!(f, "ctx_bare{}({})", k, a),
            CtxIter(kind, a, c, k) => {
                write!(f, "ctx_iter{}[", kind)?;
                sink(f, k)?;
                write!(f, "]({},{})", a, c)
            }
            IntoIter(a, k) => {
                write!(f, "into_iter[")?;
                sink(f, k)?;
                write!(f, "]({})", a)
            }
            IterChain(ps, k) => {
                write!(f, "iter_chain[")?;
                sink(f, k)?;
                write!(f, "](")?;
                for (i, p) in ps.iter().enumerate() {
                    if i > 0 {
                        write!(f, ",")?;
                    }
                    match p {
                        Part::Rep(a, x) => {
                            write!(f, "repeated[")?;
                            bd(f, x)?;
                            write!(f, ";bare]({})", a)?;
                        }
                        Part::Sep(a, s, x, l, t) => {
                            write!(f, "separated_by[")?;
                            bd(f, x)?;
                            write!(f, ";{}{};bare]({},{})", if *l { "L" } else { "-" }, if *t { "T" } else { "-" }, a, s)?;
                        }
                        Part::Opt(a) => write!(f, "or_not({})", a)?,
                        Part::Iter(a) => write!(f, "into_iter[bare]({})", a)?,
                        Part::Ctx(k, a, c) => write!(f, "ctx_iter{}[bare]({},{})", k, a, c)?,
                    }
                }
                write!(f, ")")
            }
        }
    }
}

/// Parse the rendering produced by `Display` (used by `--replay`).
pub fn parse_g(s: &str) -> Result<G, String> {
    let cs: Vec<char> = s.chars().collect();
    let mut p = P { s: &cs, i: 0 };
    let g = p.g()?;
    if p.i != cs.len() {
        return Err(format!("trailing input at {}", p.i));
    }
    Ok(g)
}

struct P<'a> {
    s: &'a [char],
    i: usize,
}

fn leak(s: String) -> &'static str {
    // replay-only path; the handful of leaked set strings is irrelevant
    Box::leak(s.into_boxed_str())
}

impl<'a> P<'a> {
    fn ident(&mut self) -> String {
        let st = self.i;
        while self.i < self.s.len() && (self.s[self.i].is_ascii_alphanumeric() || self.s[self.i] == '_') {
            self.i += 1;
        }
        self.s[st..self.i].iter().collect()
    }
    fn eat(&mut self, c: char) -> Result<(), String> {
        if self.s.get(self.i) == Some(&c) {
            self.i += 1;
            Ok(())
        } else {
            Err(format!("expected {:?} at {} in {:?}", c, self.i, self.s.iter().collect::<String>()))
        }
    }
    fn until(&mut self, stop: &[char]) -> String {
        let st = self.i;
        while self.i < self.s.len() && !stop.contains(&self.s[self.i]) {
            self.i += 1;
        }
        self.s[st..self.i].iter().collect()
    }
    fn num(&mut self) -> Result<u8, String> {
        let st = self.i;
        while self.i < self.s.len() && self.s[self.i].is_ascii_digit() {
            self.i += 1;
        }
        self.s[st..self.i].iter().collect::<String>().parse().map_err(|e| format!("num: {e}"))
    }
    fn bounds(&mut self) -> Result<Bounds, String> {
        let min = self.num()?;
        self.eat('.')?;
        self.eat('.')?;
        let max = if self.s.get(self.i).map_or(false, |c| c.is_ascii_digit()) { Some(self.num()?) } else { None };
        let mut x = Bounds::new(min, max);
        if self.s.get(self.i) == Some(&'!') {
            self.i += 1;
            x.exactly = true;
        }
        if self.s.get(self.i) == Some(&'@') {
            self.i += 1;
            x.cfg = true;
        }
        Ok(x)
    }
    fn sink(&mut self) -> Result<Sink, String> {
        let id = self.ident();
        Ok(match id.as_str() {
            "vec" => Sink::Vec,
            "count" => Sink::Count,
            "string" => Sink::Str,
            "bare" => Sink::Bare,
            "enumerate" => Sink::Enumerate,
            "exactly0" => Sink::Exactly(0),
            "exactly1" => Sink::Exactly(1),
            "exactly2" => Sink::Exactly(2),
            "exactly3" => Sink::Exactly(3),
            "foldl" | "foldr" | "foldl_with" | "foldr_with" => {
                self.eat('(')?;
                let g = b(self.g()?);
                self.eat(')')?;
                match id.as_str() {
                    "foldl" => Sink::Foldl(g),
                    "foldr" => Sink::Foldr(g),
                    "foldl_with" => Sink::FoldlWith(g),
                    _ => Sink::FoldrWith(g),
                }
            }
            o => return Err(format!("unknown sink {o}")),
        })
    }
    fn args(&mut self) -> Result<Vec<G>, String> {
        self.eat('(')?;
        let mut v = vec![];
        if self.s.get(self.i) == Some(&')') {
            self.i += 1;
            return Ok(v);
        }
        loop {
            v.push(self.g()?);
            if self.s.get(self.i) == Some(&',') {
                self.i += 1;
            } else {
                break;
            }
        }
        self.eat(')')?;
        Ok(v)
    }
    fn g(&mut self) -> Result<G, String> {
        let id = self.ident();
        let un = |p: &mut Self| -> Result<Box<G>, String> {
            let mut v = p.args()?;
            if v.len() != 1 {
                return Err(format!("{id}: arity"));
            }
            Ok(b(v.remove(0)))
        };
        let bin = |p: &mut Self| -> Result<(Box<G>, Box<G>), String> {
            let mut v = p.args()?;
            if v.len() != 2 {
                return Err("arity 2".into());
            }
            let c = v.remove(1);
            Ok((b(v.remove(0)), b(c)))
        };
        let ter = |p: &mut Self| -> Result<(Box<G>, Box<G>, Box<G>), String> {
            let mut v = p.args()?;
            if v.len() != 3 {
                return Err("arity 3".into());
            }
            let c = v.remove(2);
            let o = v.remove(1);
            Ok((b(v.remove(0)), b(o), b(c)))
        };
        Ok(match id.as_str() {
            "just" => {
                self.eat('(')?;
                let c = self.s[self.i];
                self.i += 1;
                self.eat(')')?;
                Just(c)
            }
            "justseq" => {
                self.eat('(')?;
                let a = self.s[self.i];
                let c = self.s[self.i + 1];
                self.i += 2;
                self.eat(')')?;
                JustSeq(a, c)
            }
            "any" => Any,
            "any_ref" => AnyRef,
            "end" => End,
            "empty" => Empty,
            "empty_choice" => EmptyChoice,
            "just_ctx" => JustCtx,
            "one_of" | "none_of" | "select" | "select_ref" => {
                self.eat('(')?;
                let s = leak(self.until(&[')']));
                self.eat(')')?;
                match id.as_str() {
                    "one_of" => OneOf(s),
                    "none_of" => NoneOf(s),
                    "select_ref" => SelectRef(s),
                    _ => Select(s),
                }
            }
            "custom" => {
                self.eat('(')?;
                let k = self.num()?;
                self.eat(',')?;
                let ok = self.ident() == "ok";
                self.eat(')')?;
                Custom(k, ok)
            }
            "map" => Map(un(self)?),
            "to" => To(un(self)?),
            "ignored" => Ignored(un(self)?),
            "filter" => Filter(un(self)?),
            "try_map" => TryMap(un(self)?),
            "try_map_with" => TryMapWith(un(self)?),
            "state_guard" => StGuard(un(self)?),
            "or_not" => OrNot(un(self)?),
            "not" => Not(un(self)?),
            "rewind" => Rewind(un(self)?),
            "boxed" => Boxed(un(self)?),
            "to_slice" => ToSlice(un(self)?),
            "to_span" => ToSpan(un(self)?),
            "labelled" => Labelled(un(self)?, false),
            "labelled_ctx" => Labelled(un(self)?, true),
            "map_err" => MapErr(un(self)?),
            "memoized" => Memo(un(self)?),
            "padded" => Padded(un(self)?),
            "with_state" => WithState(un(self)?),
            "snd" => Snd(un(self)?),
            "fst" => Fst(un(self)?),
            "map_unit" => MapUnit(un(self)?),
            "map_z" => MapZ(un(self)?),
            "slice_with" => SliceWith(un(self)?),
            "span_with" => SpanWith(un(self)?),
            "try_map_span" => TryMapSpan(un(self)?),
            "mid" => Mid(un(self)?),
            "lazy" => Lazy(un(self)?),
            "ext_own_check" => Ext(un(self)?, true),
            "ext_default_check" => Ext(un(self)?, false),
            "custom_nest" => CustomNest(un(self)?),
            "rec" => Rec(un(self)?, false),
            "rec_declare" => Rec(un(self)?, true),
            "var" => Var,
            "let" => {
                let (a, c) = bin(self)?;
                Let(a, c)
            }
            "rec_ref0" => RecRef(0),
            "rec_ref1" => RecRef(1),
            "nested_delims" => NestedDelims(un(self)?),
            "map_ctx" => MapCtx(un(self)?),
            "rep_ctx" => RepCtx(un(self)?),
            "rep_ctx_max" => RepCtxMax(un(self)?),
            "try_rep_ctx" => TryRepCtx(un(self)?),
            "then" => {
                let (a, c) = bin(self)?;
                Then(a, c)
            }
            "ignore_then" => {
                let (a, c) = bin(self)?;
                IgnoreThen(a, c)
            }
            "then_ignore" => {
                let (a, c) = bin(self)?;
                ThenIgnore(a, c)
            }
            "or" => {
                let (a, c) = bin(self)?;
                Or(a, c)
            }
            "and_is" => {
                let (a, c) = bin(self)?;
                AndIs(a, c)
            }
            "padded_by" => {
                let (a, c) = bin(self)?;
                PaddedBy(a, c)
            }
            "recover" => {
                let (a, c) = bin(self)?;
                Recover(a, c)
            }
            "then_with_ctx" => {
                let (a, c) = bin(self)?;
                ThenWithCtx(a, c)
            }
            "ignore_with_ctx" => {
                let (a, c) = bin(self)?;
                IgnoreWithCtx(a, c)
            }
            "delimited_by" => {
                let (a, o, c) = ter(self)?;
                DelimitedBy(a, o, c)
            }
            "skip_until" => {
                let (a, o, c) = ter(self)?;
                SkipUntil(a, o, c)
            }
            "retry" => {
                let (a, o, c) = ter(self)?;
                Retry(a, o, c)
            }
            "choice_t" => Choice(Coll::Tuple, self.args()?),
            "choice_v" => Choice(Coll::Vec, self.args()?),
            "choice_a" => Choice(Coll::Array, self.args()?),
            "group_t" => Group(Coll::Tuple, self.args()?),
            "group_a" => Group(Coll::Array, self.args()?),
            "with_ctx" => {
                self.eat('[')?;
                let c = self.s[self.i];
                self.i += 1;
                self.eat(']')?;
                WithCtx(c, un(self)?)
            }
            "rep_ctx_pre" => {
                self.eat('[')?;
                let x = self.bounds()?;
                self.eat(';')?;
                let k = self.num()?;
                self.eat(']')?;
                RepCtxPre(un(self)?, x, k)
            }
            "into_iter" => {
                self.eat('[')?;
                let s = self.sink()?;
                self.eat(']')?;
                IntoIter(un(self)?, s)
            }
            "iter_chain" => {
                self.eat('[')?;
                let s = self.sink()?;
                self.eat(']')?;
                let mut ps = vec![];
                for g in self.args()? {
                    ps.push(match g {
                        Rep(a, x, Sink::Bare) => Part::Rep(a, x),
                        SepBy(a, c, x, l, t, Sink::Bare) => Part::Sep(a, c, x, l, t),
                        OrNot(a) => Part::Opt(a),
                        IntoIter(a, Sink::Bare) => Part::Iter(a),
                        CtxIter(k, a, c, Sink::Bare) => Part::Ctx(k, a, c),
                        o => return Err(format!("not an iterable link: {o}")),
                    });
                }
                IterChain(ps, s)
            }
            "repeated" => {
                self.eat('[')?;
                let x = self.bounds()?;
                self.eat(';')?;
                let s = self.sink()?;
                self.eat(']')?;
                Rep(un(self)?, x, s)
            }
            "separated_by" => {
                self.eat('[')?;
                let x = self.bounds()?;
                self.eat(';')?;
                let l = self.s[self.i] == 'L';
                let t = self.s[self.i + 1] == 'T';
                self.i += 2;
                self.eat(';')?;
                let s = self.sink()?;
                self.eat(']')?;
                let (a, c) = bin(self)?;
                SepBy(a, c, x, l, t, s)
            }
            o => {
                if let Some(rest) = o.strip_prefix("ctx_iter") {
                    let k: u8 = rest.parse().map_err(|e| format!("ctx_iter kind: {e}"))?;
                    self.eat('[')?;
                    let s = self.sink()?;
                    self.eat(']')?;
                    let (a, c) = bin(self)?;
                    return Ok(CtxIter(k, a, c, s));
                }
                if let Some(rest) = o.strip_prefix("ctx_bare") {
                    let k: u8 = rest.parse().map_err(|e| format!("ctx_bare kind: {e}"))?;
                    return Ok(CtxBare(k, un(self)?));
                }
                if let Some(rest) = o.strip_prefix("validate") {
                    let id: u8 = rest.parse().map_err(|e| format!("validate id: {e}"))?;
                    Validate(un(self)?, id)
                } else {
                    return Err(format!("unknown node {o:?} at {}", self.i));
                }
            }
        })
    }
}
