//! C02: `collect::<C>()` sees exactly the item sequence, for EVERY container flavour the library implements
//! `Container` for (Vec, VecDeque, LinkedList, String, HashSet, BTreeSet, HashMap / BTreeMap of enumerated items,
//! Box / Cell / RefCell of a container, usize, ()), on repeated() and separated_by() with a few bounds settings.
//! Oracle (differential, no model): the same iterable collected into a Vec, converted with std's `FromIterator`.

use super::mism;
use chumsky::error::Rich;
use chumsky::prelude::*;
use cvh::unit::{ShardCtx, UnitResult};
use std::cell::{Cell, RefCell};
use std::collections::{BTreeMap, BTreeSet, HashMap, HashSet, LinkedList, VecDeque};
use std::panic::{catch_unwind, AssertUnwindSafe};

type Ex<'a> = extra::Err<Rich<'a, char>>;

fn all_strings(alpha: &[char], l: usize) -> Vec<String> {
    let mut all = vec![String::new()];
    let mut cur = vec![String::new()];
    for _ in 0..l {
        let mut nx = vec![];
        for s in &cur {
            for a in alpha {
                let mut t = s.clone();
                t.push(*a);
                nx.push(t);
            }
        }
        all.extend(nx.iter().cloned());
        cur = nx;
    }
    all
}

/// (accepted prefix value, check() acceptance) of `p.lazy()` on `s`
fn run<'a, O, P: Parser<'a, &'a str, O, Ex<'a>> + Clone>(p: &P, s: &'a str) -> Result<(Option<O>, bool), String> {
    catch_unwind(AssertUnwindSafe(|| {
        let q = p.clone().lazy();
        (q.parse(s).into_output(), q.check(s).has_output())
    }))
    .map_err(cvh::e1::panic_msg)
}

struct Ctx<'r> {
    r: &'r mut UnitResult,
    unit: &'r str,
    gname: String,
    flavours: BTreeSet<&'static str>,
}

impl<'r> Ctx<'r> {
    /// `got` (the flavour's result, rendered) must equal `want` (the Vec result pushed through FromIterator, rendered)
    fn judge(&mut self, flavour: &'static str, s: &str, got: Result<(Option<String>, bool), String>, want: &Option<String>) {
        self.flavours.insert(flavour);
        self.r.cases += 1;
        self.r.validated += 1;
        self.r.states += s.len() as u64 + 1;
        self.r.transitions += 1;
        let case = format!("{} .collect::<{flavour}>()", self.gname);
        match got {
            Err(m) => mism(self.r, "collects", self.unit, case, s, format!("panic: {m}")),
            Ok((g, chk)) => {
                if &g != want {
                    mism(self.r, "collects", self.unit, case, s, format!("collected {g:?}; the item sequence (as collected into a Vec) gives {want:?}"));
                } else if chk != want.is_some() {
                    mism(self.r, "collects", self.unit, case, s, format!("check() accepted={chk}, parse() accepted={}", want.is_some()));
                }
            }
        }
    }
}

/// all flavours for one iterable parser `$p` (items: char) on one input
macro_rules! flavours {
    ($cx:expr, $p:expr, $s:expr) => {{
        let s: &str = $s;
        let base = run(&$p.clone().collect::<Vec<char>>(), s);
        let items: Option<Vec<char>> = match &base {
            Ok((o, _)) => o.clone(),
            Err(_) => None,
        };
        $cx.judge("Vec<char>", s, base.clone().map(|(o, c)| (o.map(|v| format!("{v:?}")), c)), &items.as_ref().map(|v| format!("{v:?}")));
        *$cx.r.counters.entry(if items.is_some() { "accepted" } else { "rejected" }.into()).or_default() += 1;
        if let Some(v) = &items {
            *$cx.r.counters.entry(format!("items={}", v.len().min(4))).or_default() += 1;
        }
        macro_rules! one {
            ($name:expr, $C:ty, $conv:expr, $show:expr) => {{
                let want: Option<String> = items.as_ref().map(|v| ($show)(&($conv)(v.clone())));
                let got = run(&$p.clone().collect::<$C>(), s).map(|(o, c)| (o.map(|x| ($show)(&x)), c));
                $cx.judge($name, s, got, &want);
            }};
        }
        one!("VecDeque<char>", VecDeque<char>, |v: Vec<char>| v.into_iter().collect::<VecDeque<char>>(), |x: &VecDeque<char>| format!("{x:?}"));
        one!("LinkedList<char>", LinkedList<char>, |v: Vec<char>| v.into_iter().collect::<LinkedList<char>>(), |x: &LinkedList<char>| format!("{x:?}"));
        one!("String", String, |v: Vec<char>| v.into_iter().collect::<String>(), |x: &String| format!("{x:?}"));
        one!("HashSet<char>", HashSet<char>, |v: Vec<char>| v.into_iter().collect::<HashSet<char>>(), |x: &HashSet<char>| format!("{:?}", x.iter().collect::<BTreeSet<_>>()));
        one!("BTreeSet<char>", BTreeSet<char>, |v: Vec<char>| v.into_iter().collect::<BTreeSet<char>>(), |x: &BTreeSet<char>| format!("{x:?}"));
        one!("Box<Vec<char>>", Box<Vec<char>>, |v: Vec<char>| Box::new(v), |x: &Box<Vec<char>>| format!("{x:?}"));
        one!("Box<String>", Box<String>, |v: Vec<char>| Box::new(v.into_iter().collect::<String>()), |x: &Box<String>| format!("{x:?}"));
        one!("Cell<Vec<char>>", Cell<Vec<char>>, |v: Vec<char>| Cell::new(v), |x: &Cell<Vec<char>>| {
            let v = x.take();
            let s = format!("{v:?}");
            x.set(v);
            s
        });
        one!("RefCell<VecDeque<char>>", RefCell<VecDeque<char>>, |v: Vec<char>| RefCell::new(v.into_iter().collect::<VecDeque<char>>()), |x: &RefCell<VecDeque<char>>| format!("{:?}", x.borrow()));
        one!("usize", usize, |v: Vec<char>| v.len(), |x: &usize| format!("{x}"));
        one!("()", (), |_v: Vec<char>| (), |_x: &()| "()".to_string());
        // maps: the enumerated items (index, item) as key / value pairs (a later pair replaces an earlier one)
        {
            let want: Option<String> = items.as_ref().map(|v| format!("{:?}", v.iter().copied().enumerate().collect::<BTreeMap<usize, char>>()));
            let got = run(&$p.clone().enumerate().collect::<HashMap<usize, char>>(), s).map(|(o, c)| (o.map(|x| format!("{:?}", x.into_iter().collect::<BTreeMap<_, _>>())), c));
            $cx.judge("HashMap<usize, char> of enumerate()", s, got, &want);
            let got = run(&$p.clone().enumerate().collect::<BTreeMap<usize, char>>(), s).map(|(o, c)| (o.map(|x| format!("{x:?}")), c));
            $cx.judge("BTreeMap<usize, char> of enumerate()", s, got, &want);
        }
    }};
}

pub fn run_unit(unit: &str, len: usize, cx: &ShardCtx) -> UnitResult {
    let mut r = UnitResult { name: unit.to_string(), exhaustive: true, ..Default::default() };
    let inputs = all_strings(&['a', 'b', ','], len);
    let item = || one_of::<_, &str, Ex>("ab");
    let mut nflav = 0usize;
    let mut ngram = 0usize;
    {
        let mut c = Ctx { r: &mut r, unit, gname: String::new(), flavours: BTreeSet::new() };
        let mut gi = 0usize;
        macro_rules! grammar {
            ($name:expr, $p:expr) => {{
                ngram += 1;
                if gi % cx.nshards == cx.shard {
                    c.gname = $name.to_string();
                    let p = $p;
                    for s in &inputs {
                        flavours!(c, p, s.as_str());
                    }
                }
                gi += 1;
            }};
        }
        grammar!("one_of(ab).repeated()", item().repeated());
        grammar!("one_of(ab).repeated().at_least(1)", item().repeated().at_least(1));
        grammar!("one_of(ab).repeated().at_most(2)", item().repeated().at_most(2));
        grammar!("one_of(ab).repeated().at_least(1).at_most(3)", item().repeated().at_least(1).at_most(3));
        grammar!("one_of(ab).repeated().exactly(2)", item().repeated().exactly(2));
        grammar!("just(ab).to(b).or(one_of(ab)).repeated()", just("ab").to('b').or(item()).repeated());
        grammar!("one_of(ab).separated_by(',')", item().separated_by(just(',')));
        grammar!("one_of(ab).separated_by(',').allow_trailing()", item().separated_by(just(',')).allow_trailing());
        grammar!("one_of(ab).separated_by(',').allow_leading().at_least(1)", item().separated_by(just(',')).allow_leading().at_least(1));
        grammar!("one_of(ab).separated_by(',').at_most(2)", item().separated_by(just(',')).at_most(2));
        grammar!("one_of(ab).separated_by(',').exactly(2).allow_trailing()", item().separated_by(just(',')).exactly(2).allow_trailing());
        grammar!("one_of(ab).or_not() as an iterator", item().or_not());
        grammar!("one_of(ab).repeated().then(just(',').to('a').repeated()) chained", item().repeated().at_most(2).then(just(',').to('a').repeated()));
        // items that are (key, value) pairs: a later pair replaces an earlier one with the same key
        macro_rules! pair_grammar {
            ($name:expr, $p:expr) => {{
                ngram += 1;
                if gi % cx.nshards == cx.shard {
                    c.gname = $name.to_string();
                    let p = $p;
                    for s in &inputs {
                        let s: &str = s.as_str();
                        let base = run(&p.clone().collect::<Vec<(char, usize)>>(), s);
                        let items: Option<Vec<(char, usize)>> = base.as_ref().ok().and_then(|(o, _)| o.clone());
                        let want = items.as_ref().map(|v| format!("{:?}", v.iter().copied().collect::<BTreeMap<char, usize>>()));
                        let got = run(&p.clone().collect::<HashMap<char, usize>>(), s).map(|(o, k)| (o.map(|x| format!("{:?}", x.into_iter().collect::<BTreeMap<_, _>>())), k));
                        c.judge("HashMap<char, usize> of (item, offset) pairs", s, got, &want);
                        let got = run(&p.clone().collect::<BTreeMap<char, usize>>(), s).map(|(o, k)| (o.map(|x| format!("{x:?}")), k));
                        c.judge("BTreeMap<char, usize> of (item, offset) pairs", s, got, &want);
                        let want = items.as_ref().map(|v| format!("{:?}", v.iter().copied().collect::<BTreeSet<(char, usize)>>()));
                        let got = run(&p.clone().collect::<HashSet<(char, usize)>>(), s).map(|(o, k)| (o.map(|x| format!("{:?}", x.into_iter().collect::<BTreeSet<_>>())), k));
                        c.judge("HashSet<(char, usize)>", s, got, &want);
                    }
                }
                gi += 1;
            }};
        }
        let pair = || item().map_with(|ch, e| (ch, { let sp: SimpleSpan = e.span(); sp.start }));
        pair_grammar!("one_of(ab).map_with((item, offset)).repeated()", pair().repeated());
        pair_grammar!("one_of(ab).map_with((item, offset)).separated_by(',').allow_trailing()", pair().separated_by(just(',')).allow_trailing());
        let _ = gi;
        nflav = c.flavours.len();
    }
    r.distinct_outcomes = r.counters.iter().filter(|(k, _)| k.starts_with("items=")).count() as u64 * ngram as u64;
    r.desc = format!(
        "collect::<C>() for {nflav} container flavours (Vec, VecDeque, LinkedList, String, HashSet, BTreeSet, Box / Cell / RefCell of a container, usize, (), HashMap / BTreeMap of enumerated items and of (item, offset) pairs) x {ngram} iterable parsers (repeated / separated_by with bounds and flags, or_not, a chain) on all {} inputs over \"ab,\" of length <= {len}: each flavour holds exactly the item sequence (the Vec result pushed through std's FromIterator), parse and check",
        inputs.len()
    );
    r
}
