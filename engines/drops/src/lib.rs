//! C19 — every produced value is dropped exactly once or handed to the caller.
//! A second interpreter for the shared grammar AST whose outputs (`TV`) and tokens (`TTok`) are
//! registered in a per-thread registry on creation and de-registered on drop, so that leaks and
//! double drops are observable.  The invariant is checked directly (no model needed); the reference
//! model is only consulted for the anti-vacuity counters.

use chumsky::error::Rich;
use chumsky::prelude::*;
use chumsky::IterParser;
use cvh::unit::{ShardCtx, Tier, UnitResult};
use cvm::ast::{Bounds, Coll, Sink, G};
use cvm::enumerate as en;
use serde_json::{json, Value};
use std::cell::{Cell, RefCell};
use std::collections::HashSet;
use std::panic::{catch_unwind, AssertUnwindSafe};

// ---- registries ---------------------------------------------------------------------------------------------

thread_local! {
    static NEXT: Cell<u64> = const { Cell::new(1) };
    static LIVE_V: RefCell<HashSet<u64>> = RefCell::new(HashSet::new());
    static LIVE_T: RefCell<HashSet<u64>> = RefCell::new(HashSet::new());
    /// drops of something that was not live (double drop / drop of a never-created value)
    static BAD_DROPS: Cell<u32> = const { Cell::new(0) };
    static CREATED_V: Cell<u64> = const { Cell::new(0) };
}
fn fresh() -> u64 {
    NEXT.with(|n| {
        let v = n.get();
        n.set(v + 1);
        v
    })
}

/// guard carried by every output value
#[derive(Debug)]
pub struct Gd(u64);
impl Gd {
    fn new() -> Gd {
        let s = fresh();
        LIVE_V.with(|l| l.borrow_mut().insert(s));
        CREATED_V.with(|c| c.set(c.get() + 1));
        Gd(s)
    }
}
impl Drop for Gd {
    fn drop(&mut self) {
        if !LIVE_V.with(|l| l.borrow_mut().remove(&self.0)) {
            BAD_DROPS.with(|b| b.set(b.get() + 1));
        }
    }
}

#[derive(Debug)]
pub enum K {
    U,
    T(char),
    P(Box<TV>, Box<TV>),
    O(Option<Box<TV>>),
    M(Box<TV>),
    L(Vec<TV>),
    N(usize),
    Z,
    F,
}
/// tracked output value. Deliberately NOT `Clone` except through `dup` (used by `to`, which needs Clone)
#[derive(Debug)]
pub struct TV {
    _g: Gd,
    pub k: K,
}
impl TV {
    pub fn new(k: K) -> TV {
        TV { _g: Gd::new(), k }
    }
    pub fn size(&self) -> usize {
        1 + match &self.k {
            K::P(a, b) => a.size() + b.size(),
            K::O(Some(a)) | K::M(a) => a.size(),
            K::L(v) => v.iter().map(|x| x.size()).sum(),
            _ => 0,
        }
    }
}
impl Clone for TV {
    fn clone(&self) -> TV {
        TV::new(match &self.k {
            K::U => K::U,
            K::T(c) => K::T(*c),
            K::P(a, b) => K::P(a.clone(), b.clone()),
            K::O(o) => K::O(o.clone()),
            K::M(a) => K::M(a.clone()),
            K::L(v) => K::L(v.clone()),
            K::N(n) => K::N(*n),
            K::Z => K::Z,
            K::F => K::F,
        })
    }
}
fn first_tok(v: &TV) -> Option<char> {
    match &v.k {
        K::T(c) => Some(*c),
        K::P(a, b) => first_tok(a).or_else(|| first_tok(b)),
        K::O(o) => o.as_ref().and_then(|v| first_tok(v)),
        K::M(v) => first_tok(v),
        K::L(vs) => vs.iter().find_map(first_tok),
        _ => None,
    }
}
fn pred(v: &TV) -> bool {
    first_tok(v) != Some('b')
}

/// tracked token: every clone the parser makes is registered
#[derive(Debug)]
pub struct TTok {
    c: char,
    s: u64,
}
impl TTok {
    pub fn new(c: char) -> TTok {
        let s = fresh();
        LIVE_T.with(|l| l.borrow_mut().insert(s));
        TTok { c, s }
    }
}
impl Clone for TTok {
    fn clone(&self) -> TTok {
        TTok::new(self.c)
    }
}
impl Drop for TTok {
    fn drop(&mut self) {
        if !LIVE_T.with(|l| l.borrow_mut().remove(&self.s)) {
            BAD_DROPS.with(|b| b.set(b.get() + 1));
        }
    }
}
impl PartialEq for TTok {
    fn eq(&self, o: &TTok) -> bool {
        self.c == o.c
    }
}


/// what the interpreter needs from an output type: tracked constructors for every shape of value
pub trait Tracked: Sized + Clone + std::fmt::Debug + 'static {
    fn leaf(c: char) -> Self;
    fn unit() -> Self;
    fn pair(a: Self, b: Self) -> Self;
    fn list(v: Vec<Self>) -> Self;
    fn opt(o: Option<Self>) -> Self;
    fn wrap(v: Self) -> Self;
    fn num(n: usize) -> Self;
    fn z() -> Self;
    fn f() -> Self;
    fn pred(&self) -> bool;
    /// the items `into_iter()` iterates (each one tracked)
    fn items(self) -> Vec<Self>;
    fn size(&self) -> usize;
    fn live() -> usize;
    fn reset();
}
impl Tracked for TV {
    fn leaf(c: char) -> TV {
        TV::new(K::T(c))
    }
    fn unit() -> TV {
        TV::new(K::U)
    }
    fn pair(a: TV, b: TV) -> TV {
        TV::new(K::P(bx(a), bx(b)))
    }
    fn list(v: Vec<TV>) -> TV {
        TV::new(K::L(v))
    }
    fn opt(o: Option<TV>) -> TV {
        TV::new(K::O(o.map(bx)))
    }
    fn wrap(v: TV) -> TV {
        TV::new(K::M(bx(v)))
    }
    fn num(n: usize) -> TV {
        TV::new(K::N(n))
    }
    fn z() -> TV {
        TV::new(K::Z)
    }
    fn f() -> TV {
        TV::new(K::F)
    }
    fn pred(&self) -> bool {
        pred(self)
    }
    fn items(self) -> Vec<TV> {
        let TV { _g, k } = self;
        match k {
            K::L(v) => v,
            o => vec![TV::new(o)],
        }
    }
    fn size(&self) -> usize {
        TV::size(self)
    }
    fn live() -> usize {
        LIVE_V.with(|l| l.borrow().len())
    }
    fn reset() {
        LIVE_V.with(|l| l.borrow_mut().clear());
    }
}

thread_local! {
    static LIVE_Z: Cell<i64> = const { Cell::new(0) };
    static ZTICK: Cell<u64> = const { Cell::new(0) };
}
/// ZERO-SIZED tracked output with a destructor (a scope guard / permit token): `size_of::<Zg>() == 0`
/// but `needs_drop::<Zg>()`.  Identity cannot be tracked, the live count can; a drop below zero is a
/// double drop.  Every composite value consumes its parts and is itself one `Zg`.
#[derive(Debug)]
pub struct Zg;
impl Zg {
    fn new() -> Zg {
        LIVE_Z.with(|l| l.set(l.get() + 1));
        CREATED_V.with(|c| c.set(c.get() + 1));
        Zg
    }
}
impl Drop for Zg {
    fn drop(&mut self) {
        LIVE_Z.with(|l| {
            if l.get() <= 0 {
                BAD_DROPS.with(|b| b.set(b.get() + 1));
            } else {
                l.set(l.get() - 1);
            }
        });
    }
}
impl Clone for Zg {
    fn clone(&self) -> Zg {
        Zg::new()
    }
}
impl Tracked for Zg {
    fn leaf(_: char) -> Zg {
        Zg::new()
    }
    fn unit() -> Zg {
        Zg::new()
    }
    fn pair(_: Zg, _: Zg) -> Zg {
        Zg::new()
    }
    fn list(_: Vec<Zg>) -> Zg {
        Zg::new()
    }
    fn opt(_: Option<Zg>) -> Zg {
        Zg::new()
    }
    fn wrap(_: Zg) -> Zg {
        Zg::new()
    }
    fn num(_: usize) -> Zg {
        Zg::new()
    }
    fn z() -> Zg {
        Zg::new()
    }
    fn f() -> Zg {
        Zg::new()
    }
    /// a value carries no information: the predicate rejects every third call of this parse
    fn pred(&self) -> bool {
        ZTICK.with(|t| {
            t.set(t.get() + 1);
            t.get() % 3 != 0
        })
    }
    fn items(self) -> Vec<Zg> {
        vec![Zg::new(), Zg::new()]
    }
    fn size(&self) -> usize {
        1
    }
    fn live() -> usize {
        LIVE_Z.with(|l| l.get().max(0) as usize)
    }
    fn reset() {
        LIVE_Z.with(|l| l.set(0));
    }
}

// ---- interpreter ------------------------------------------------------------------------------------------------

type I<'a> = &'a [TTok];
type Ex<'a> = extra::Err<Rich<'a, TTok>>;
type BP<'a, T> = Boxed<'a, 'a, I<'a>, T, Ex<'a>>;

fn tk(c: char) -> TTok {
    TTok::new(c)
}
fn bx(v: TV) -> Box<TV> {
    Box::new(v)
}

pub fn supported(g: &G) -> bool {
    use G::*;
    !g.any_node(&|x| matches!(x, Select(_) | ToSlice(_) | ToSpan(_) | Labelled(..) | MapErr(_) | Memo(_) | WithState(_) | Snd(_) | Fst(_) | MapUnit(_) | MapZ(_) | SliceWith(_) | SpanWith(_) | Mid(_) | Lazy(_) | NestedDelims(_) | WithCtx(..) | ThenWithCtx(..) | IgnoreWithCtx(..) | MapCtx(_) | JustCtx | RepCtx(_) | RepCtxMax(_) | TryRepCtx(_) | RepCtxPre(..) | TryMapWith(_)))
        && !g.any_node(&|x| matches!(x, IntoIter(_, Sink::Str | Sink::FoldlWith(_) | Sink::FoldrWith(_)) | Rep(_, _, Sink::Str | Sink::FoldlWith(_) | Sink::FoldrWith(_)) | SepBy(_, _, _, _, _, Sink::Str | Sink::FoldlWith(_) | Sink::FoldrWith(_))))
}

macro_rules! with_bounds {
    ($p:expr, $bd:expr, $cfg:expr, |$q:ident| $k:expr) => {{
        let (min, max) = ($bd.min as usize, $bd.max.map(|m| m as usize));
        if $bd.exactly {
            let $q = $p.exactly(min);
            $k
        } else {
            let mut $q = $p;
            if min > 0 {
                $q = $q.at_least(min);
            }
            if let Some(m) = max {
                $q = $q.at_most(m);
            }
            $k
        }
    }};
}

thread_local! {
    /// which container types the sinks collect into (read when a parser is BUILT): 0 = Vec / [T; N],
    /// 1 = Box<Vec> / Box<[T; N]>, 2 = VecDeque / Box<Box<[T; N]>>, 3 = LinkedList / RefCell<Vec> for enumerate,
    /// 4 = RefCell<Vec> / Cell<Vec> for enumerate
    pub static FLAVOUR: std::cell::Cell<u8> = const { std::cell::Cell::new(0) };
}
pub const FLAVOURS: [&str; 5] = ["", "box", "box2-deque", "linkedlist", "refcell"];

fn apply_sink<'a, T: Tracked, P>(p: P, sink: &Sink) -> BP<'a, T>
where
    P: IterParser<'a, I<'a>, T, Ex<'a>> + Parser<'a, I<'a>, (), Ex<'a>> + Clone + 'a,
{
    use std::cell::{Cell, RefCell};
    use std::collections::{LinkedList, VecDeque};
    match (FLAVOUR.with(|f| f.get()), sink) {
        (1, Sink::Vec) => return p.collect::<Box<Vec<T>>>().map(|v| T::list(*v)).boxed(),
        (2, Sink::Vec) => return p.collect::<VecDeque<T>>().map(|v| T::list(v.into_iter().collect())).boxed(),
        (3, Sink::Vec) => return p.collect::<LinkedList<T>>().map(|v| T::list(v.into_iter().collect())).boxed(),
        (4, Sink::Vec) => return p.collect::<RefCell<Vec<T>>>().map(|v| T::list(v.into_inner())).boxed(),
        (3, Sink::Enumerate) => return p.enumerate().collect::<RefCell<Vec<(usize, T)>>>().map(|v| T::list(v.into_inner().into_iter().map(|(i, x)| T::pair(T::num(i), x)).collect())).boxed(),
        (4, Sink::Enumerate) => return p.enumerate().collect::<Cell<Vec<(usize, T)>>>().map(|v| T::list(v.into_inner().into_iter().map(|(i, x)| T::pair(T::num(i), x)).collect())).boxed(),
        (1, Sink::Exactly(0)) => return p.collect_exactly::<Box<[T; 0]>>().map(|a| T::list((*a).into())).boxed(),
        (1, Sink::Exactly(1)) => return p.collect_exactly::<Box<[T; 1]>>().map(|a| T::list((*a).into())).boxed(),
        (1, Sink::Exactly(2)) => return p.collect_exactly::<Box<[T; 2]>>().map(|a| T::list((*a).into())).boxed(),
        (1, Sink::Exactly(3)) => return p.collect_exactly::<Box<[T; 3]>>().map(|a| T::list((*a).into())).boxed(),
        (2, Sink::Exactly(1)) => return p.collect_exactly::<Box<Box<[T; 1]>>>().map(|a| T::list((**a).into())).boxed(),
        (2, Sink::Exactly(2)) => return p.collect_exactly::<Box<Box<[T; 2]>>>().map(|a| T::list((**a).into())).boxed(),
        (2, Sink::Exactly(3)) => return p.collect_exactly::<Box<Box<[T; 3]>>>().map(|a| T::list((**a).into())).boxed(),
        // `()` as a container: every item is dropped as it arrives
        (3 | 4, Sink::Count) => return p.collect::<()>().map(|()| T::unit()).boxed(),
        _ => {}
    }
    match sink {
        Sink::Vec => p.collect::<Vec<T>>().map(|v| T::list(v)).boxed(),
        Sink::Count => p.count().map(|n| T::num(n)).boxed(),
        Sink::Bare => Parser::map(p, |()| T::unit()).boxed(),
        Sink::Exactly(0) => p.collect_exactly::<[T; 0]>().map(|a| T::list(a.into())).boxed(),
        Sink::Exactly(1) => p.collect_exactly::<[T; 1]>().map(|a| T::list(a.into())).boxed(),
        Sink::Exactly(2) => p.collect_exactly::<[T; 2]>().map(|a| T::list(a.into())).boxed(),
        Sink::Exactly(3) => p.collect_exactly::<[T; 3]>().map(|a| T::list(a.into())).boxed(),
        Sink::Enumerate => p.enumerate().collect::<Vec<(usize, T)>>().map(|v| T::list(v.into_iter().map(|(i, x)| T::pair(T::num(i), x)).collect())).boxed(),
        Sink::Foldl(init) => build::<T>(init).foldl(p, |acc, x| T::pair(acc, x)).boxed(),
        Sink::Foldr(init) => p.foldr(build::<T>(init), |x, acc| T::pair(x, acc)).boxed(),
        _ => panic!("unsupported sink"),
    }
}

pub fn build<'a, T: Tracked>(g: &G) -> BP<'a, T> {
    use G::*;
    let tv = |t: TTok| T::leaf(t.c);
    match g {
        Just(c) => just(tk(*c)).map(tv).boxed(),
        JustSeq(a, c) => {
            let (a, c) = (*a, *c);
            just([tk(a), tk(c)]).map(move |_| T::pair(T::leaf(a), T::leaf(c))).boxed()
        }
        Any => any().map(tv).boxed(),
        OneOf(s) => one_of(s.chars().map(tk).collect::<Vec<_>>()).map(tv).boxed(),
        NoneOf(s) => none_of(s.chars().map(tk).collect::<Vec<_>>()).map(tv).boxed(),
        End => end().map(|_| T::unit()).boxed(),
        Empty => empty().map(|_| T::unit()).boxed(),
        Custom(k, ok) => {
            let (k, ok) = (*k, *ok);
            custom(move |inp: &mut chumsky::input::InputRef<'a, '_, I<'a>, Ex<'a>>| {
                let before = inp.cursor();
                let mut held = vec![];
                for _ in 0..(k % 10) {
                    if k >= 10 {
                        // peek() + skip(): the skipped token clone is dropped by the library
                        match inp.peek() {
                            Some(t) => held.push(T::leaf(t.c)),
                            None => return Err(Rich::custom(inp.span_since(&before), "CU")),
                        }
                        inp.skip();
                        continue;
                    }
                    match inp.next() {
                        Some(t) => held.push(T::leaf(t.c)),
                        None => return Err(Rich::custom(inp.span_since(&before), "CU")),
                    }
                }
                if ok {
                    Ok(T::list(held))
                } else {
                    Err(Rich::custom(inp.span_since(&before), "CU"))
                }
            })
            .boxed()
        }
        EmptyChoice => choice(Vec::<BP<'a, T>>::new()).boxed(),
        Map(a) => build::<T>(a).map(|v| T::wrap(v)).boxed(),
        To(a) => build::<T>(a).to(T::z()).boxed(),
        Ignored(a) => build::<T>(a).ignored().map(|_| T::unit()).boxed(),
        Filter(a) => build::<T>(a).filter(|v: &T| v.pred()).boxed(),
        TryMap(a) => build::<T>(a).try_map(|v: T, span| if v.pred() { Ok(v) } else { Err(Rich::custom(span, "TM")) }).boxed(),
        OrNot(a) => build::<T>(a).or_not().map(|o| T::opt(o)).boxed(),
        Not(a) => build::<T>(a).not().map(|_| T::unit()).boxed(),
        Rewind(a) => build::<T>(a).rewind().boxed(),
        Boxed(a) => build::<T>(a).boxed().boxed(),
        Validate(a, _) => build::<T>(a)
            .validate(|v, e, em| {
                em.emit(Rich::custom(e.span(), "V"));
                v
            })
            .boxed(),
        Rep(item, bd, sink) => with_bounds!(build::<T>(item).repeated(), bd, false, |q| apply_sink(q, sink)),
        IntoIter(a, sink) => apply_sink(build::<T>(a).map(|v: T| v.items()).into_iter(), sink),
        SepBy(item, sep, bd, l, t, sink) => {
            let mut p = build::<T>(item).separated_by(build::<T>(sep));
            if *l {
                p = p.allow_leading();
            }
            if *t {
                p = p.allow_trailing();
            }
            with_bounds!(p, bd, false, |q| apply_sink(q, sink))
        }
        Then(a, c) => build::<T>(a).then(build::<T>(c)).map(|(a, c)| T::pair(a, c)).boxed(),
        IgnoreThen(a, c) => build::<T>(a).ignore_then(build::<T>(c)).boxed(),
        ThenIgnore(a, c) => build::<T>(a).then_ignore(build::<T>(c)).boxed(),
        Or(a, c) => build::<T>(a).or(build::<T>(c)).boxed(),
        AndIs(a, c) => build::<T>(a).and_is(build::<T>(c)).boxed(),
        PaddedBy(a, p) => build::<T>(a).padded_by(build::<T>(p)).boxed(),
        DelimitedBy(a, o, c) => build::<T>(a).delimited_by(build::<T>(o), build::<T>(c)).boxed(),
        Choice(k, v) => {
            let mut ps: Vec<BP<'a, T>> = v.iter().map(build::<T>).collect();
            match (k, ps.len()) {
                (Coll::Vec, _) => choice(ps).boxed(),
                (Coll::Tuple, 2) => {
                    let c = ps.remove(1);
                    choice((ps.remove(0), c)).boxed()
                }
                (Coll::Tuple, 3) => {
                    let d = ps.remove(2);
                    let c = ps.remove(1);
                    choice((ps.remove(0), c, d)).boxed()
                }
                (Coll::Array, 2) => {
                    let c = ps.remove(1);
                    choice([ps.remove(0), c]).boxed()
                }
                (Coll::Array, 3) => {
                    let d = ps.remove(2);
                    let c = ps.remove(1);
                    choice([ps.remove(0), c, d]).boxed()
                }
                _ => panic!("choice arity"),
            }
        }
        Group(k, v) => {
            let mut ps: Vec<BP<'a, T>> = v.iter().map(build::<T>).collect();
            match (k, ps.len()) {
                (Coll::Tuple, 2) => {
                    let c = ps.remove(1);
                    group((ps.remove(0), c)).map(|(a, c)| T::list(vec![a, c])).boxed()
                }
                (Coll::Tuple, 3) => {
                    let d = ps.remove(2);
                    let c = ps.remove(1);
                    group((ps.remove(0), c, d)).map(|(a, c, d)| T::list(vec![a, c, d])).boxed()
                }
                (Coll::Array, 2) => {
                    let c = ps.remove(1);
                    group([ps.remove(0), c]).map(|a: [T; 2]| T::list(a.into())).boxed()
                }
                (Coll::Array, 3) => {
                    let d = ps.remove(2);
                    let c = ps.remove(1);
                    group([ps.remove(0), c, d]).map(|a: [T; 3]| T::list(a.into())).boxed()
                }
                _ => panic!("group arity"),
            }
        }
        Recover(a, f) => build::<T>(a).recover_with(via_parser(build::<T>(f).map(|v| T::wrap(v)))).boxed(),
        SkipUntil(a, s, u) => build::<T>(a).recover_with(skip_until(build::<T>(s).ignored(), build::<T>(u).ignored(), || T::f())).boxed(),
        Retry(a, s, u) => build::<T>(a).recover_with(skip_then_retry_until(build::<T>(s).ignored(), build::<T>(u).ignored())).boxed(),
        o => panic!("drops interpreter: unsupported node {o}"),
    }
}

// ---- the check -----------------------------------------------------------------------------------------------------

fn live_t() -> usize {
    LIVE_T.with(|l| l.borrow().len())
}

/// Returns Err(description) if the drop discipline is violated on this case.
fn run_case<'a, T: Tracked>(p: &BP<'a, T>, input: &'a [TTok]) -> Result<(bool, u64), String> {
    let (v0, t0) = (T::live(), live_t());
    ZTICK.with(|t| t.set(0));
    BAD_DROPS.with(|b| b.set(0));
    let c0 = CREATED_V.with(|c| c.get());
    let res = catch_unwind(AssertUnwindSafe(|| {
        let r = p.parse(input);
        let acc = r.has_output();
        // while the result is held: exactly the values reachable from the output are live
        let held = r.output().map(|o| o.size()).unwrap_or(0);
        let lv = T::live() - v0;
        let nerr_toks_ok = true;
        drop(r);
        (acc, held, lv, nerr_toks_ok)
    }));
    let created = CREATED_V.with(|c| c.get()) - c0;
    let (acc, held, lv_held) = match res {
        Ok((a, h, l, _)) => (a, h, l),
        Err(e) => return Err(format!("panic: {}", cvh::e1::panic_msg(e))),
    };
    if lv_held != held {
        return Err(format!("while the result was held {} values were live but the output contains {}", lv_held, held));
    }
    if T::live() != v0 {
        return Err(format!("{} output value(s) leaked by parse() (created {})", T::live() as i64 - v0 as i64, created));
    }
    if live_t() != t0 {
        return Err(format!("token clones not balanced after parse(): {} extra live", live_t() as i64 - t0 as i64));
    }
    if BAD_DROPS.with(|b| b.get()) != 0 {
        return Err("a value or token was dropped twice during parse()".into());
    }
    // check mode (the value-free predicate of the zero-sized flavour restarts its sequence)
    ZTICK.with(|t| t.set(0));
    let res = catch_unwind(AssertUnwindSafe(|| {
        let r = p.check(input);
        let a = r.has_output();
        drop(r);
        a
    }));
    match res {
        Err(e) => return Err(format!("panic in check(): {}", cvh::e1::panic_msg(e))),
        Ok(a) => {
            if a != acc {
                return Err("check() and parse() disagree on acceptance".into());
            }
        }
    }
    if T::live() != v0 {
        return Err(format!("{} output value(s) leaked by check()", T::live() as i64 - v0 as i64));
    }
    if live_t() != t0 {
        return Err(format!("token clones not balanced after check(): {} extra live", live_t() as i64 - t0 as i64));
    }
    if BAD_DROPS.with(|b| b.get()) != 0 {
        return Err("a value or token was dropped twice during check()".into());
    }
    Ok((acc, created))
}

pub fn classes(tier: Tier) -> Vec<(&'static str, Vec<G>, Vec<char>, usize)> {
    let q = tier == Tier::Quick;
    let mut k02: Vec<G> = en::k02_rep(false).into_iter().filter(|g| !matches!(g, G::Then(a, _) if matches!(**a, G::Rep(_, Bounds { cfg: true, .. }, _)))).collect();
    k02.extend(en::k02_sep(false));
    // the K02 templates end in a to_slice rest capture, which this interpreter does not need: strip it
    let k02: Vec<G> = k02.into_iter().map(|g| if let G::Then(a, _) = g { *a } else { g }).filter(supported).collect();
    let k02_long: Vec<G> = k02.iter().step_by(11).cloned().collect();
    vec![
        ("k01", en::k01().upto(if q { 3 } else { 4 }).into_iter().filter(supported).collect(), vec!['a', 'b', 'c'], 4),
        ("kext-recovery", en::k_ext().upto(if q { 3 } else { 4 }).into_iter().filter(supported).collect(), vec!['a', 'b', 'c'], 4),
        ("k02-sinks", k02.clone(), vec!['a', 'b', ','], if q { 4 } else { 5 }),
        ("kgroup-deep", k_group().upto(if q { 4 } else { 5 }), vec!['a', 'b', ','], 4),
        // long runs: sinks that buffer their operands (folds from the right, collections that grow) past any small
        // inline capacity - every 11th template (all sinks, bounds and flags still occur) on inputs of up to 11 tokens
        ("k02-long-runs", k02_long, vec!['a', ','], if q { 11 } else { 13 }),
    ]
}

/// focused class: fixed-size collections failing at every position
pub fn k_group() -> en::Class {
    use G::*;
    let leaves = vec![Just('a'), Any, JustSeq('a', 'b'), Just(',')];
    let unary: Vec<en::U1> = vec![
        Box::new(|a| Some(Map(a))),
        Box::new(|a| Some(OrNot(a))),
        // zero-width items are legal under collect_exactly (bounded by N, no progress assertion)
        Box::new(|a| Some(Rep(a, Bounds::new(0, None), Sink::Exactly(2)))),
        Box::new(|a| Some(Rep(a, Bounds::new(2, None), Sink::Exactly(3)))),
        Box::new(|a| Some(Rep(a, Bounds::new(0, Some(1)), Sink::Exactly(2)))),
        Box::new(|a| if en::nn(&a) { Some(Rep(a, Bounds::new(1, Some(2)), Sink::Vec)) } else { None }),
        // a collected list iterated again: a partly consumed iterator must drop its remaining items
        Box::new(|a| Some(IntoIter(a, Sink::Exactly(1)))),
        Box::new(|a| Some(IntoIter(a, Sink::Exactly(2)))),
    ];
    let binary: Vec<en::U2> = vec![
        Box::new(|a, c| Some(Group(Coll::Array, vec![*a, *c]))),
        Box::new(|a, c| Some(Group(Coll::Tuple, vec![*a, *c]))),
        Box::new(|a, c| Some(Or(a, c))),
        Box::new(|a, c| Some(Then(a, c))),
        Box::new(|a, s| if en::nn(&s) { Some(SepBy(a, s, Bounds::new(2, None), false, false, Sink::Exactly(3))) } else { None }),
        Box::new(|a, s| if en::nn(&s) { Some(SepBy(a, s, Bounds::new(0, None), false, false, Sink::Exactly(2))) } else { None }),
    ];
    let ternary: Vec<en::U3> = vec![Box::new(|a, o, c| Some(Group(Coll::Array, vec![*a, *o, *c]))), Box::new(|a, o, c| Some(Group(Coll::Tuple, vec![*a, *o, *c])))];
    en::Class { name: "Kgroup", leaves, unary, binary, ternary }
}

pub fn run_class<T: Tracked>(unit: &str, cname: &str, gs: &[G], alpha: &[char], len: usize, cx: &ShardCtx, only: Option<(&str, &str)>) -> UnitResult {
    let mut r = UnitResult { name: unit.to_string(), exhaustive: true, ..Default::default() };
    let ins = en::inputs(alpha, len);
    let bufs: Vec<Vec<TTok>> = ins.iter().map(|s| s.iter().map(|c| TTok::new(*c)).collect()).collect();
    let mut distinct = HashSet::new();
    for (gi, g) in gs.iter().enumerate() {
        if gi % cx.nshards != cx.shard || cx.skip.contains(&gi) {
            continue;
        }
        let gname = g.to_string();
        if let Some((og, _)) = only {
            if og != gname {
                continue;
            }
        }
        (cx.progress)(gi);
        let v_before_build = T::live();
        let p = build::<T>(g);
        for (ii, toks) in ins.iter().enumerate() {
            let iname: String = toks.iter().collect();
            if let Some((_, oi)) = only {
                if oi != iname {
                    continue;
                }
            }
            r.cases += 1;
            r.validated += 1;
            let (m, st) = cvm::sem::parse(g, toks, cvm::sem::Sw::NONE, cvm::sem::Probes::default());
            r.states += st.states;
            r.transitions += st.steps;
            match run_case(&p, &bufs[ii]) {
                Ok((acc, created)) => {
                    *r.counters.entry(if acc { "accepted" } else { "rejected" }.into()).or_default() += 1;
                    *r.counters.entry("values_created".into()).or_default() += created;
                    if !acc && created > 0 {
                        *r.counters.entry("failed_parses_that_had_created_values".into()).or_default() += 1;
                    }
                    if m.output.is_some() != acc && !m.unspecified {
                        // acceptance is C01/C02's to report; noted only
                        *r.counters.entry("acceptance_differs_from_model(not_alarmed_here)".into()).or_default() += 1;
                    }
                    distinct.insert((gi as u32 % 4096, acc, created.min(9)));
                    if r.samples.len() < 5 && !acc && created >= 2 {
                        r.samples.push(format!("{gname} on {iname:?}: rejected after creating {created} values; all dropped exactly once, tokens balanced"));
                    }
                }
                Err(why) => {
                    r.mismatch_count += 1;
                    if r.mismatches.len() < 20 {
                        r.mismatches.push(json!({"engine": "drops", "unit": unit, "class": cname, "grammar": gname, "input": iname, "categories": ["drop_discipline"], "detail": why, "explained_by": []}));
                    }
                    // resynchronise the registries after a leak so that later cases are judged on their own
                    T::reset();
                    BAD_DROPS.with(|b| b.set(0));
                }
            }
        }
        drop(p);
        // parsers built with `to(..)` hold one value; it must go away with the parser
        if T::live() != v_before_build {
            T::reset();
        }
    }
    r.distinct_outcomes = distinct.len() as u64;
    r.desc = format!("drop discipline, class {cname}{}: {} grammars x {} inputs over {:?} (length <= {len}) on &[tracked token]; registry-tracked outputs and tokens, parse and check: live values == size of the returned output while it is held, 0 after it is dropped, no value or token dropped twice, token clones balanced", if std::mem::size_of::<T>() == 0 { " with ZERO-SIZED outputs that have a destructor (live count instead of identities)" } else { "" }, gs.len(), ins.len(), alpha.iter().collect::<String>());
    r
}

/// `drops[-zst]-<class>[@<container flavour>]`
fn split_unit(unit: &str) -> (bool, String, u8) {
    let rest = unit.strip_prefix("drops-").unwrap_or(unit);
    let (rest, fl) = match rest.split_once('@') {
        Some((r, f)) => (r, FLAVOURS.iter().position(|x| *x == f).unwrap_or_else(|| panic!("unknown container flavour {f}")) as u8),
        None => (rest, 0),
    };
    match rest.strip_prefix("zst-") {
        Some(c) => (true, c.to_string(), fl),
        None => (false, rest.to_string(), fl),
    }
}

pub fn run(unit: &str, tier: Tier, cx: &ShardCtx) -> UnitResult {
    let (zst, cname, fl) = split_unit(unit);
    FLAVOUR.with(|f| f.set(fl));
    for (n, gs, alpha, len) in classes(tier) {
        if n == cname {
            let mut r = if zst { run_class::<Zg>(unit, n, &gs, &alpha, len, cx, None) } else { run_class::<TV>(unit, n, &gs, &alpha, len, cx, None) };
            if fl != 0 {
                r.desc = format!("{}; sinks collect into the `{}` containers (Box<Vec> / Box<[T; N]>, VecDeque / Box<Box<[T; N]>>, LinkedList, RefCell / Cell<Vec>, `()`)", r.desc, FLAVOURS[fl as usize]);
            }
            FLAVOUR.with(|f| f.set(0));
            return r;
        }
    }
    panic!("unknown unit {unit}")
}

pub fn unit_names() -> Vec<&'static str> {
    vec![
        "drops-k01",
        "drops-kext-recovery",
        "drops-k02-sinks",
        "drops-kgroup-deep",
        "drops-zst-k01",
        "drops-zst-kext-recovery",
        "drops-zst-k02-sinks",
        "drops-zst-kgroup-deep",
        "drops-k02-sinks@box",
        "drops-kgroup-deep@box",
        "drops-zst-kgroup-deep@box",
        "drops-k02-sinks@box2-deque",
        "drops-kgroup-deep@box2-deque",
        "drops-k02-sinks@linkedlist",
        "drops-k02-sinks@refcell",
        "drops-k02-long-runs",
        "drops-zst-k02-long-runs",
    ]
}

pub fn replay(v: &Value) -> Result<Option<String>, String> {
    let unit = v["unit"].as_str().ok_or("no unit")?.to_string();
    let (zst, cname, fl) = split_unit(&unit);
    FLAVOUR.with(|f| f.set(fl));
    let g = cvm::ast::parse_g(v["grammar"].as_str().ok_or("no grammar")?)?;
    let input: Vec<char> = v["input"].as_str().ok_or("no input")?.chars().collect();
    let progress = |_: usize| {};
    let cx = ShardCtx { shard: 0, nshards: 1, known: cvm::sem::Sw::NONE, skip: vec![], progress: &progress };
    let alpha: Vec<char> = {
        let mut a: Vec<char> = input.clone();
        a.sort();
        a.dedup();
        a
    };
    // run exactly this case: a one-grammar class over the input's own alphabet and length, filtered to the input
    let gname = g.to_string();
    let iname: String = input.iter().collect();
    let r = if zst { run_class::<Zg>(&unit, &cname, &[g], &alpha, input.len(), &cx, Some((&gname, &iname))) } else { run_class::<TV>(&unit, &cname, &[g], &alpha, input.len(), &cx, Some((&gname, &iname))) };
    Ok(r.mismatches.first().map(|m| m["detail"].as_str().unwrap_or("").to_string()))
}
