//! E1 — grammar x input conformance: run every (grammar, input) case through the real parser
//! (`parse` and `check`) and compare the observation with the reference model.

use crate::interp::*;
use chumsky::prelude::*;
use cvm::ast::{Tok, Val, G};
use cvm::sem::{self, Alt, Outcome, Probes, Stats, Sw};
use std::panic::{catch_unwind, AssertUnwindSafe};

// ---- mismatch categories (bit mask) ------------------------------------------------------------------
pub const ACC: u32 = 1 << 0; // acceptance differs
pub const VAL: u32 = 1 << 1; // output value differs (beyond probes)
pub const EXT: u32 = 1 << 2; // span/slice extents differ
pub const STO: u32 = 1 << 3; // state observations differ
pub const CXO: u32 = 1 << 4; // context observations differ
pub const EMI: u32 = 1 << 5; // emissions of a successful parse differ (count/span/message)
pub const EMC: u32 = 1 << 6; // emissions differ only in recovered-error content / contexts
pub const PSP: u32 = 1 << 7; // primary error span
pub const PFO: u32 = 1 << 8; // primary error found
pub const PEX: u32 = 1 << 9; // primary error expected set / custom reason
pub const PCX: u32 = 1 << 10; // primary error contexts
pub const CHK: u32 = 1 << 11; // check() and parse() disagree
pub const FIN: u32 = 1 << 12; // final inspector state
pub const PAN: u32 = 1 << 13; // panic
pub const NOE: u32 = 1 << 14; // failed parse without any error / errors() inconsistent with result contract
pub const MAL: u32 = 1 << 15; // malformed span (start > end, outside input, not on a token boundary)
pub const ZCP: u32 = 1 << 16; // slice not inside the caller's buffer
pub const ECN: u32 = 1 << 17; // number of errors on a failed parse is zero or (EmptyErr) count differs
pub const CON: u32 = 1 << 18; // ParseResult contract (has_output / has_errors / into_result) violated
pub const LAZ: u32 = 1 << 19; // lazy(): accepts iff the grammar matches a prefix, with that prefix's output
pub const DIF: u32 = 1 << 20; // differential pair disagrees
pub const PUL: u32 = 1 << 22; // a Stream pulled an item twice or out of order
pub const EMF: u32 = 1 << 21; // emissions preceding the failure of a backtracking-free (straight-line) grammar

pub const CAT_NAMES: &[(&str, u32)] = &[
    ("accept", ACC),
    ("value", VAL),
    ("extent", EXT),
    ("state_obs", STO),
    ("ctx_obs", CXO),
    ("emissions", EMI),
    ("emission_content", EMC),
    ("primary_span", PSP),
    ("primary_found", PFO),
    ("primary_expected", PEX),
    ("primary_context", PCX),
    ("check_vs_parse", CHK),
    ("final_state", FIN),
    ("panic", PAN),
    ("no_error", NOE),
    ("malformed_span", MAL),
    ("zero_copy", ZCP),
    ("error_count", ECN),
    ("result_contract", CON),
    ("lazy_prefix", LAZ),
    ("pair_differs", DIF),
    ("emissions_before_failure", EMF),
    ("stream_pull_order", PUL),
];

pub fn cat_names(mask: u32) -> Vec<&'static str> {
    CAT_NAMES.iter().filter(|(_, b)| mask & b != 0).map(|(n, _)| *n).collect()
}

thread_local! {
    /// index of the last item the current Stream pulled from its iterator (None = nothing yet)
    pub static PULL_LAST: std::cell::Cell<Option<usize>> = const { std::cell::Cell::new(None) };
    /// set when an item is pulled twice or out of order
    pub static PULL_BAD: std::cell::Cell<bool> = const { std::cell::Cell::new(false) };
    /// total pulls (anti-vacuity) and number of rewinds crossing a 512-token batch boundary cannot be
    /// observed from outside; the pull counter is reported
    pub static PULLS: std::cell::Cell<u64> = const { std::cell::Cell::new(0) };
}
pub fn log_item((k, c): (usize, char)) -> char {
    let expect = PULL_LAST.with(|l| l.get()).map_or(0, |x| x + 1);
    if k != expect {
        PULL_BAD.with(|b| b.set(true));
    }
    PULL_LAST.with(|l| l.set(Some(k)));
    PULLS.with(|p| p.set(p.get() + 1));
    c
}

// ---- raw observation -----------------------------------------------------------------------------------

#[derive(Clone, Debug, Default)]
pub struct RawObs {
    pub out: Option<Val>,
    pub errs: Vec<ObsErr>,
    pub chk_out: bool,
    pub chk_errs: Vec<ObsErr>,
    pub st: Option<(u32, u64)>,
    pub chk_st: Option<(u32, u64)>,
    pub panic: Option<String>,
    /// description of a violated ParseResult invariant (C03)
    pub contract: Option<String>,
    /// `p.lazy().parse(w)`: (output, number of errors); only when the job asks for it
    pub lazy: Option<(Option<Val>, usize)>,
    /// a counting Stream saw an item pulled twice or out of order
    pub pull_bad: bool,
}

pub fn panic_msg(e: Box<dyn std::any::Any + Send>) -> String {
    if let Some(s) = e.downcast_ref::<&str>() {
        s.to_string()
    } else if let Some(s) = e.downcast_ref::<String>() {
        s.clone()
    } else {
        "<non-string panic>".into()
    }
}

pub fn run_case<'a, I: InK<'a>, C: Cfg<'a, I>, P>(p: &P, mk: &dyn Fn() -> I, lazy: bool) -> RawObs
where
    P: Parser<'a, I, Val, Ex<'a, I, C>> + Clone,
{
    let r = catch_unwind(AssertUnwindSafe(|| {
        let mut st = <C::St as Default>::default();
        let res = p.parse_with_state(mk(), &mut st);
        let (ho, he) = (res.has_output(), res.has_errors());
        let ne = res.errors().len();
        let ok = res.clone().into_result().is_ok();
        let mut contract = None;
        if he != (ne > 0) {
            contract = Some(format!("has_errors()={he} but errors().len()={ne}"));
        } else if !ho && ne == 0 {
            contract = Some("no output and no error".to_string());
        } else if he && ok {
            contract = Some("has_errors() but into_result() is Ok".to_string());
        } else if !he && !ho {
            contract = Some("error-free result without output".to_string());
        } else if ok != (ho && !he) {
            contract = Some(format!("into_result().is_ok()={ok} with has_output={ho} has_errors={he}"));
        } else if res.output().is_some() != ho {
            contract = Some("output() disagrees with has_output()".to_string());
        }
        let (out, errs) = res.into_output_errors();
        let errs: Vec<ObsErr> = errs.iter().map(|e| <C::Err as ErrK<'a, I>>::obs(e)).collect();
        let s1 = st.obs();
        let mut st2 = <C::St as Default>::default();
        let c = p.check_with_state(mk(), &mut st2);
        let chk_out = c.has_output();
        let chk_errs: Vec<ObsErr> = c.errors().map(|e| <C::Err as ErrK<'a, I>>::obs(e)).collect();
        let lz = if lazy {
            let mut st3 = <C::St as Default>::default();
            let (o, e) = p.clone().lazy().parse_with_state(mk(), &mut st3).into_output_errors();
            Some((o, e.len()))
        } else {
            None
        };
        RawObs { out, errs, chk_out, chk_errs, st: s1, chk_st: st2.obs(), panic: None, contract, lazy: lz, pull_bad: false }
    }));
    match r {
        Ok(o) => o,
        Err(e) => RawObs { panic: Some(panic_msg(e)), ..Default::default() },
    }
}

// ---- normalisation ----------------------------------------------------------------------------------------

/// raw (start, end) -> token indices; the flag says the pair is a slice offset in the caller's
/// buffer (never re-based) rather than a span
pub type Norm<'n> = &'n dyn Fn((usize, usize), bool) -> Option<(usize, usize)>;

/// Rewrite raw spans/offsets to token indices. Returns (malformed spans, slices outside buffer).
pub fn norm_val(v: &mut Val, f: Norm, unrender: &dyn Fn(char) -> char) -> (u32, u32) {
    let mut bad = (0, 0);
    fn go(v: &mut Val, f: Norm, un: &dyn Fn(char) -> char, bad: &mut (u32, u32)) {
        match v {
            Val::S(a, b, i) => {
                match f((*a, *b), false) {
                    Some((x, y)) => {
                        *a = x;
                        *b = y;
                    }
                    None => {
                        bad.0 += 1;
                        *a = usize::MAX;
                        *b = usize::MAX;
                    }
                }
                go(i, f, un, bad)
            }
            Val::Sp(a, b) => match f((*a, *b), false) {
                Some((x, y)) => {
                    *a = x;
                    *b = y;
                }
                None => {
                    bad.0 += 1;
                    *a = usize::MAX;
                    *b = usize::MAX;
                }
            },
            Val::Sl(o, s) => {
                if *o == usize::MAX {
                    bad.1 += 1;
                } else {
                    match f((*o, *o), true) {
                        Some((x, _)) => *o = x,
                        None => {
                            bad.0 += 1;
                            *o = usize::MAX;
                        }
                    }
                }
                *s = s.chars().map(un).collect();
            }
            Val::P(a, b) => {
                go(a, f, un, bad);
                go(b, f, un, bad)
            }
            Val::O(Some(a)) | Val::M(a) | Val::Q(_, _, a) | Val::Cx(_, a) => go(a, f, un, bad),
            Val::L(vs) => vs.iter_mut().for_each(|x| go(x, f, un, bad)),
            Val::O(None) | Val::U | Val::T(_) | Val::N(_) | Val::F | Val::Tag(_) | Val::Z => {}
        }
    }
    go(v, f, unrender, &mut bad);
    bad
}

pub fn norm_err(e: &mut ObsErr, f: Norm) -> u32 {
    let mut bad = 0;
    if e.kind == EK::Empty {
        return 0;
    }
    match f(e.span, false) {
        Some(s) => e.span = s,
        None => {
            bad += 1;
            e.span = (usize::MAX, usize::MAX);
        }
    }
    for (_, s) in e.ctx.iter_mut() {
        match f(*s, false) {
            Some(x) => *s = x,
            None => {
                bad += 1;
                *s = (usize::MAX, usize::MAX);
            }
        }
    }
    bad
}

/// strip probe layers: bit0 = spans/slices/to_span extents, bit1 = state, bit2 = ctx
pub fn strip(v: &Val, what: u8) -> Val {
    match v {
        Val::S(a, b, i) => {
            if what & 1 != 0 {
                Val::S(0, 0, Box::new(strip(i, what)))
            } else {
                Val::S(*a, *b, Box::new(strip(i, what)))
            }
        }
        Val::Sp(a, b) => {
            if what & 1 != 0 {
                Val::Sp(0, 0)
            } else {
                Val::Sp(*a, *b)
            }
        }
        Val::Sl(o, s) => {
            if what & 1 != 0 {
                Val::Sl(0, String::new())
            } else {
                Val::Sl(*o, s.clone())
            }
        }
        Val::Q(c, h, i) => {
            if what & 2 != 0 {
                Val::Q(0, 0, Box::new(strip(i, what)))
            } else {
                Val::Q(*c, *h, Box::new(strip(i, what)))
            }
        }
        Val::Cx(c, i) => {
            if what & 4 != 0 {
                Val::Cx('?', Box::new(strip(i, what)))
            } else {
                Val::Cx(*c, Box::new(strip(i, what)))
            }
        }
        Val::P(a, b) => Val::P(Box::new(strip(a, what)), Box::new(strip(b, what))),
        Val::O(o) => Val::O(o.as_ref().map(|x| Box::new(strip(x, what)))),
        Val::M(a) => Val::M(Box::new(strip(a, what))),
        Val::L(vs) => Val::L(vs.iter().map(|x| strip(x, what)).collect()),
        o => o.clone(),
    }
}

// ---- comparison --------------------------------------------------------------------------------------------

fn cmp_err(kind: EK, obs: &ObsErr, m: &Alt, emission: bool) -> u32 {
    let mut mask = 0;
    let (sp, fo, ex) = if emission { (EMI, EMC, EMC) } else { (PSP, PFO, PEX) };
    let cx = if emission { EMC } else { PCX };
    match kind {
        EK::Empty => {}
        EK::Cheap => {
            if obs.span != m.span {
                mask |= sp;
            }
        }
        EK::Simple => {
            if obs.span != m.span {
                mask |= sp;
            }
            if obs.found != m.found0 {
                mask |= fo;
            }
        }
        EK::Rich => {
            if obs.span != m.span {
                mask |= sp;
            }
            if obs.found != m.found {
                mask |= fo;
            }
            if exp_set(obs) != m.exp || obs.custom != m.custom {
                mask |= if emission && obs.custom != m.custom && (obs.custom.is_some() && m.custom.is_some()) { EMI } else { ex };
            }
            if obs.ctx != m.ctx {
                mask |= cx;
            }
        }
    }
    mask
}

/// Compare a normalised observation with the model's outcome. `len` = number of tokens.
pub fn compare(kind: EK, obs: &RawObs, m: &Outcome, len: usize) -> u32 {
    let mut mask = 0;
    if obs.panic.is_some() {
        return PAN;
    }
    // check vs parse
    if obs.chk_out != obs.out.is_some() || obs.chk_errs != obs.errs {
        mask |= CHK;
    }
    if obs.st != obs.chk_st {
        mask |= CHK;
    }
    // result contract (direct)
    if obs.out.is_none() && obs.errs.is_empty() {
        mask |= NOE | ECN;
    }
    if obs.contract.is_some() || (!obs.chk_out && obs.chk_errs.is_empty()) {
        mask |= CON;
    }
    if obs.pull_bad {
        mask |= PUL;
    }
    // direct well-formedness of error spans
    if kind != EK::Empty {
        for e in &obs.errs {
            if e.span.0 == usize::MAX || e.span.0 > e.span.1 || e.span.1 > len {
                mask |= MAL;
            }
        }
    }
    if obs.out.is_some() != m.output.is_some() {
        return mask | ACC;
    }
    match (&obs.out, &m.output) {
        (Some(o), Some(mo)) => {
            if o != mo {
                if strip(o, 1) == strip(mo, 1) {
                    mask |= EXT;
                } else if strip(o, 2) == strip(mo, 2) {
                    mask |= STO;
                } else if strip(o, 4) == strip(mo, 4) {
                    mask |= CXO;
                } else if strip(o, 7) == strip(mo, 7) {
                    mask |= EXT | STO | CXO;
                } else {
                    mask |= VAL;
                }
            }
            // emissions along the surviving path
            if obs.errs.len() != m.emitted.len() {
                mask |= EMI;
            } else {
                for (e, me) in obs.errs.iter().zip(m.emitted.iter()) {
                    mask |= cmp_err(kind, e, me, true);
                }
            }
            if let Some(st) = obs.st {
                if st != m.final_state {
                    mask |= FIN;
                }
            }
        }
        (None, None) => {
            // only the last (primary) error of a failed parse is specified
            if let (Some(e), Some(p)) = (obs.errs.last(), &m.primary) {
                if !m.failed_without_alt {
                    mask |= cmp_err(kind, e, p, false);
                }
            }
            // A grammar without any backtracking construct never rewinds, so everything emitted before
            // the failure is still reported (in order, before the primary error).
            if m.straight_line && !obs.errs.is_empty() {
                let em = &obs.errs[..obs.errs.len() - 1];
                if em.len() != m.emitted.len() || em.iter().zip(m.emitted.iter()).any(|(e, me)| cmp_err(kind, e, me, true) != 0) {
                    mask |= EMF;
                }
            }
        }
        _ => unreachable!(),
    }
    mask
}

// ---- accumulation -------------------------------------------------------------------------------------------

#[derive(Clone, Debug)]
pub struct Mismatch {
    pub mask: u32,
    pub grammar: String,
    pub input: String,
    pub kind: &'static str,
    pub cfg: &'static str,
    pub detail: String,
    /// names of as-implemented switches that explain this mismatch (known-finding classification)
    pub explained_by: Vec<&'static str>,
}

#[derive(Default)]
pub struct Acc {
    pub cases: u64,
    pub accepted: u64,
    pub rejected: u64,
    pub with_emissions: u64,
    pub panics: u64,
    pub unspecified: u64,
    pub stats: Stats,
    pub mismatches: Vec<Mismatch>,
    pub mismatch_count: u64,
    pub mismatch_by_cat: std::collections::BTreeMap<&'static str, u64>,
    pub explained_counts: std::collections::BTreeMap<String, u64>,
    pub samples: Vec<String>,
    pub distinct_outcomes: std::collections::HashSet<u64>,
}

pub const MAX_KEPT: usize = 40;

pub struct Job<'j> {
    pub grammars: &'j [G],
    pub inputs: &'j [Vec<Tok>],
    pub probes: Probes,
    /// categories that count as a violation for the property being checked
    pub alarm: u32,
    /// grammars containing `not` are excluded from error-content comparison
    pub skip_not_content: bool,
    /// switches of the listed known findings (used only to classify mismatches)
    pub known: Sw,
    pub kind_name: &'static str,
    pub cfg_name: &'static str,
    /// worker progress marker: called with the index of the grammar about to be run
    pub progress: &'j dyn Fn(usize),
    pub first: usize,
    pub stride: usize,
    /// grammar indices to skip (they reproducibly kill the worker process; reported separately)
    pub skip: &'j [usize],
    /// also run `p.lazy()` and compare with the model's prefix match (C03)
    pub lazy: bool,
    /// differential mode: `grammars[2k]` and `grammars[2k+1]` must behave identically under `pair_mode`
    pub pair_mode: Option<PairMode>,
    /// build every combinator through its own `Clone` impl (interp::CLONE_MODE)
    pub clone_mode: bool,
    /// statically typed parsers (generated code), parallel to `grammars`; &str / Rich only
    pub static_cases: Option<&'j [crate::stat::CaseFn]>,
}

#[derive(Clone, Copy, Debug, PartialEq, Eq)]
pub enum PairMode {
    /// outputs and complete error lists identical, for parse and check (C04, C11)
    Exact,
    /// acceptance, outputs, number of errors and error spans identical (C17)
    Shape,
}

pub fn pair_mode_name(m: Option<PairMode>) -> &'static str {
    match m {
        None => "",
        Some(PairMode::Exact) => "exact",
        Some(PairMode::Shape) => "shape",
    }
}
pub fn pair_mode_from(s: &str) -> Option<PairMode> {
    match s {
        "exact" => Some(PairMode::Exact),
        "shape" => Some(PairMode::Shape),
        _ => None,
    }
}

fn pair_diff(mode: PairMode, a: &RawObs, b: &RawObs) -> Option<String> {
    if a.panic.is_some() || b.panic.is_some() {
        return if a.panic.is_some() != b.panic.is_some() { Some("one side panicked".into()) } else { None };
    }
    let sp = |v: &Vec<ObsErr>| v.iter().map(|e| e.span).collect::<Vec<_>>();
    match mode {
        PairMode::Exact => {
            if a.out != b.out {
                return Some("outputs differ".into());
            }
            if a.errs != b.errs {
                return Some("error lists differ".into());
            }
            if a.chk_out != b.chk_out || a.chk_errs != b.chk_errs {
                return Some("check() results differ".into());
            }
            if a.st != b.st {
                return Some("final states differ".into());
            }
        }
        PairMode::Shape => {
            if a.out != b.out {
                return Some("acceptance or outputs differ".into());
            }
            if a.errs.len() != b.errs.len() {
                return Some("number of errors differs".into());
            }
            if sp(&a.errs) != sp(&b.errs) {
                return Some("error spans differ".into());
            }
            if a.chk_out != b.chk_out || sp(&a.chk_errs) != sp(&b.chk_errs) {
                return Some("check() results differ".into());
            }
        }
    }
    None
}

fn hash_outcome(o: &Outcome) -> u64 {
    use std::hash::{Hash, Hasher};
    let mut h = std::collections::hash_map::DefaultHasher::new();
    o.output.hash(&mut h);
    o.emitted.hash(&mut h);
    o.primary.hash(&mut h);
    h.finish()
}

/// Classify: which single known switches are necessary to explain the mismatch.
fn classify(g: &G, toks: &[Tok], probes: Probes, known: Sw, kind: EK, obs: &RawObs, alarm: u32, content_mask: u32) -> Vec<&'static str> {
    if known.0 == 0 {
        return vec![];
    }
    let (m, _) = sem::parse(g, toks, known, probes);
    if compare(kind, obs, &m, toks.len()) & alarm & content_mask != 0 {
        return vec![];
    }
    let mut needed = vec![];
    for (name, bit) in Sw::NAMES {
        if known.0 & bit != 0 {
            let (m2, _) = sem::parse(g, toks, Sw(known.0 & !bit), probes);
            if compare(kind, obs, &m2, toks.len()) & alarm & content_mask != 0 {
                needed.push(*name);
            }
        }
    }
    if needed.is_empty() {
        // explained only by the combination
        needed = Sw::NAMES.iter().filter(|(_, b)| known.0 & b != 0).map(|(n, _)| *n).collect();
    }
    needed
}

/// Run one case on the implementation and normalise spans/offsets to token indices.
/// Returns the observation plus (malformed spans, slices outside the buffer).
#[allow(clippy::too_many_arguments)]
fn observe<'a, I: InK<'a>, C: Cfg<'a, I>>(
    p: &BP<'a, I, C>,
    ii: usize,
    lazy: bool,
    mk: &dyn Fn(usize) -> I,
    buf: &dyn Fn(usize) -> (usize, usize),
    norm: &dyn Fn(usize, (usize, usize), bool) -> Option<(usize, usize)>,
    unrender: &dyn Fn(char) -> char,
) -> (RawObs, u32, u32) {
    BUF.with(|b| b.set(buf(ii)));
    PULL_BAD.with(|b| b.set(false));
    let mut obs = run_case::<I, C, BP<'a, I, C>>(p, &|| mk(ii), lazy);
    if PULL_BAD.with(|b| b.get()) {
        obs.pull_bad = true;
    }
    let nf = |s: (usize, usize), off: bool| norm(ii, s, off);
    let (bad_sp, bad_sl) = normalise_obs(&mut obs, &nf, unrender);
    (obs, bad_sp, bad_sl)
}

/// rewrite raw spans / offsets to token indices and canonicalise expected lists
pub fn normalise_obs(obs: &mut RawObs, nf: Norm, unrender: &dyn Fn(char) -> char) -> (u32, u32) {
    let mut bad = (0, 0);
    if let Some(v) = obs.out.as_mut() {
        bad = norm_val(v, nf, unrender);
    }
    if let Some((Some(v), _)) = obs.lazy.as_mut() {
        let b2 = norm_val(v, nf, unrender);
        bad = (bad.0 + b2.0, bad.1 + b2.1);
    }
    let mut bad_e = 0;
    for e in obs.errs.iter_mut().chain(obs.chk_errs.iter_mut()) {
        bad_e += norm_err(e, nf);
        e.found = e.found.map(unrender);
        for x in e.exp.iter_mut() {
            if let OExp::Tok(c) = x {
                *c = unrender(*c);
            }
        }
        // the order of the entries of an expected list is not specified: canonicalise
        e.exp.sort_by_key(|x| format!("{x:?}"));
        e.exp.dedup();
    }
    (bad.0 + bad_e, bad.1)
}

fn record(acc: &mut Acc, job: &Job, hit: u32, g: &G, toks: &[Tok], detail: String, explained_by: Vec<&'static str>) {
    acc.mismatch_count += 1;
    for n in cat_names(hit) {
        *acc.mismatch_by_cat.entry(n).or_default() += 1;
    }
    *acc.explained_counts.entry(if explained_by.is_empty() { "UNEXPLAINED".to_string() } else { explained_by.join("+") }).or_default() += 1;
    let keep = acc.mismatches.len() < MAX_KEPT
        || (explained_by.is_empty() && acc.mismatches.iter().filter(|x| x.explained_by.is_empty()).count() < MAX_KEPT);
    if keep {
        acc.mismatches.push(Mismatch { mask: hit, grammar: g.to_string(), input: toks.iter().collect(), kind: job.kind_name, cfg: job.cfg_name, detail, explained_by });
    }
}

fn try_build<'a, I: InK<'a>, C: Cfg<'a, I>>(g: &G, job: &Job, acc: &mut Acc) -> Option<BP<'a, I, C>> {
    match catch_unwind(AssertUnwindSafe(|| build::<I, C>(g, job.probes))) {
        Ok(p) => Some(p),
        Err(e) => {
            acc.panics += 1;
            record(acc, job, PAN, g, &[], format!("panic while building the parser: {}", panic_msg(e)), vec![]);
            None
        }
    }
}

pub fn run_generic<'a, I: InK<'a>, C: Cfg<'a, I>>(
    job: &Job,
    mk: &dyn Fn(usize) -> I,
    buf: &dyn Fn(usize) -> (usize, usize),
    norm: &dyn Fn(usize, (usize, usize), bool) -> Option<(usize, usize)>,
    unrender: &dyn Fn(char) -> char,
    acc: &mut Acc,
) {
    CLONE_MODE.with(|c| c.set(job.clone_mode));
    if let Some(mode) = job.pair_mode {
        return run_pairs::<I, C>(job, mode, mk, buf, norm, unrender, acc);
    }
    let kind = <C::Err as ErrK<'a, I>>::KIND;
    let mut gi = job.first;
    while gi < job.grammars.len() {
        if job.skip.contains(&gi) {
            gi += job.stride;
            continue;
        }
        let g = &job.grammars[gi];
        (job.progress)(gi);
        let Some(p) = try_build::<I, C>(g, job, acc) else {
            gi += job.stride;
            continue;
        };
        let has_not = job.skip_not_content && g.contains_not();
        let content_mask = if has_not { !(PSP | PFO | PEX | PCX | EMC) } else { !0 };
        for (ii, toks) in job.inputs.iter().enumerate() {
            acc.cases += 1;
            let (m, st) = sem::parse(g, toks, Sw::NONE, job.probes);
            acc.stats.add(&st);
            if m.unspecified {
                acc.unspecified += 1;
                continue;
            }
            let (obs, bad_sp, bad_sl) = observe::<I, C>(&p, ii, job.lazy, mk, buf, norm, unrender);
            judge(job, kind, g, toks, &m, obs, bad_sp, bad_sl, content_mask, acc);
        }
        drop(p);
        gi += job.stride;
    }
}

/// compare one normalised observation with the model's outcome, update counters, record mismatches
#[allow(clippy::too_many_arguments)]
pub fn judge(job: &Job, kind: EK, g: &G, toks: &[Tok], m: &Outcome, obs: RawObs, bad_sp: u32, bad_sl: u32, content_mask: u32, acc: &mut Acc) {
    let mut mask = compare(kind, &obs, &m, toks.len());
    if bad_sp > 0 {
        mask |= MAL;
    }
    if bad_sl > 0 {
        mask |= ZCP;
    }
    let mut lazy_model = None;
    if let Some((lo, _)) = &obs.lazy {
        let lm = sem::parse_lazy(g, toks, Sw::NONE, job.probes).map(|(_, v)| v);
        if *lo != lm {
            mask |= LAZ;
        }
        lazy_model = Some(lm);
    }
    if obs.panic.is_some() {
        acc.panics += 1;
    }
    if m.output.is_some() {
        acc.accepted += 1;
        if !m.emitted.is_empty() {
            acc.with_emissions += 1;
        }
    } else {
        acc.rejected += 1;
    }
    if acc.distinct_outcomes.len() < 100_000 {
        acc.distinct_outcomes.insert(hash_outcome(&m));
    }
    if acc.samples.len() < 6 && (acc.cases % 9973 == 1 || (acc.samples.len() < 2 && m.output.is_some() && !toks.is_empty())) {
        acc.samples.push(format!(
            "{} on {:?} [{}/{}] -> model {} ; impl agrees={}",
            g,
            toks.iter().collect::<String>(),
            job.kind_name,
            job.cfg_name,
            match &m.output {
                Some(v) => format!("Ok({:?}) emitted={}", v, m.emitted.len()),
                None => format!("Err({:?})", m.primary.as_ref().map(|a| (a.span, a.found, &a.exp, &a.custom))),
            },
            mask == 0
        ));
    }
    let hit = mask & job.alarm & content_mask;
    if hit != 0 {
        let explained_by = classify(g, toks, job.probes, job.known, kind, &obs, job.alarm & !LAZ, content_mask);
        let detail = format!(
            "categories={:?}\n  impl : out={:?} errs={:?} check=({}, {:?}) state={:?} panic={:?} contract={:?} lazy={:?}\n  model: out={:?} emitted={:?} primary={:?} state={:?} lazy={:?}",
            cat_names(hit),
            obs.out,
            obs.errs,
            obs.chk_out,
            obs.chk_errs,
            obs.st,
            obs.panic,
            obs.contract,
            obs.lazy,
            m.output,
            m.emitted,
            m.primary,
            m.final_state,
            lazy_model
        );
        record(acc, job, hit, g, toks, detail, explained_by);
    }
}

/// Differential mode: `grammars[2k]` vs `grammars[2k+1]` on every input (no model involved,
/// except for skipping the unspecified corners).
#[allow(clippy::too_many_arguments)]
fn run_pairs<'a, I: InK<'a>, C: Cfg<'a, I>>(
    job: &Job,
    mode: PairMode,
    mk: &dyn Fn(usize) -> I,
    buf: &dyn Fn(usize) -> (usize, usize),
    norm: &dyn Fn(usize, (usize, usize), bool) -> Option<(usize, usize)>,
    unrender: &dyn Fn(char) -> char,
    acc: &mut Acc,
) {
    let npairs = job.grammars.len() / 2;
    let mut pi = job.first;
    while pi < npairs {
        if job.skip.contains(&pi) {
            pi += job.stride;
            continue;
        }
        (job.progress)(pi);
        let (ga, gb) = (&job.grammars[2 * pi], &job.grammars[2 * pi + 1]);
        // in clone mode the first member is built plainly and the second through Clone
        CLONE_MODE.with(|c| c.set(false));
        let pa = try_build::<I, C>(ga, job, acc);
        CLONE_MODE.with(|c| c.set(job.clone_mode));
        let pb = try_build::<I, C>(gb, job, acc);
        let (Some(pa), Some(pb)) = (pa, pb) else {
            pi += job.stride;
            continue;
        };
        for (ii, toks) in job.inputs.iter().enumerate() {
            acc.cases += 1;
            // the model is consulted only for the unspecified-corner flag and the anti-vacuity counters
            let (m, st) = sem::parse(ga, toks, Sw::NONE, job.probes);
            acc.stats.add(&st);
            if m.unspecified {
                acc.unspecified += 1;
                continue;
            }
            let (oa, _, _) = observe::<I, C>(&pa, ii, false, mk, buf, norm, unrender);
            let (ob, _, _) = observe::<I, C>(&pb, ii, false, mk, buf, norm, unrender);
            if oa.out.is_some() {
                acc.accepted += 1;
                if !oa.errs.is_empty() {
                    acc.with_emissions += 1;
                }
            } else {
                acc.rejected += 1;
            }
            if oa.panic.is_some() || ob.panic.is_some() {
                acc.panics += 1;
            }
            if acc.distinct_outcomes.len() < 100_000 {
                acc.distinct_outcomes.insert(hash_outcome(&m));
            }
            if acc.samples.len() < 6 && (acc.cases % 9973 == 1 || (acc.samples.len() < 2 && oa.out.is_some() && !toks.is_empty())) {
                acc.samples.push(format!(
                    "{}  vs  {} on {:?} [{}/{}] -> out={:?} errors={}",
                    ga,
                    gb,
                    toks.iter().collect::<String>(),
                    job.kind_name,
                    job.cfg_name,
                    oa.out,
                    oa.errs.len()
                ));
            }
            if let Some(why) = pair_diff(mode, &oa, &ob) {
                if job.alarm & DIF != 0 {
                    let detail = format!(
                        "{why}\n  A: {}\n     out={:?} errs={:?} check=({}, {:?}) panic={:?}\n  B: {}\n     out={:?} errs={:?} check=({}, {:?}) panic={:?}",
                        ga, oa.out, oa.errs, oa.chk_out, oa.chk_errs, oa.panic, gb, ob.out, ob.errs, ob.chk_out, ob.chk_errs, ob.panic
                    );
                    let pair = cvm::ast::Group(cvm::ast::Coll::Tuple, vec![ga.clone(), gb.clone()]);
                    record(acc, job, DIF, &pair, toks, detail, vec![]);
                }
            }
        }
        pi += job.stride;
    }
}

// ---- input kinds ------------------------------------------------------------------------------------------------

pub fn ident(c: char) -> char {
    c
}

pub fn byte_table(s: &str) -> Vec<usize> {
    let mut t: Vec<usize> = s.char_indices().map(|(i, _)| i).collect();
    t.push(s.len());
    t
}
pub fn from_table(t: &[usize], (a, b): (usize, usize)) -> Option<(usize, usize)> {
    let x = t.binary_search(&a).ok()?;
    let y = t.binary_search(&b).ok()?;
    if x <= y {
        Some((x, y))
    } else {
        None
    }
}
pub fn index_norm(n: usize, (a, b): (usize, usize)) -> Option<(usize, usize)> {
    if a <= b && b <= n {
        Some((a, b))
    } else {
        None
    }
}

pub fn run_str<C: for<'x> Cfg<'x, &'x str>>(job: &Job, mb: bool, acc: &mut Acc) {
    MB.with(|m| m.set(mb));
    let bufs: Vec<String> = job.inputs.iter().map(|t| t.iter().map(|c| if mb { render(*c) } else { *c }).collect()).collect();
    let tables: Vec<Vec<usize>> = bufs.iter().map(|s| byte_table(s)).collect();
    if let Some(fns) = job.static_cases {
        assert!(!mb, "static cases are ASCII only");
        return run_static(job, fns, &bufs, &tables, acc);
    }
    run_generic::<&str, C>(
        job,
        &|i| bufs[i].as_str(),
        &|i| (bufs[i].as_ptr() as usize, bufs[i].len()),
        &|i, s, _| from_table(&tables[i], s),
        if mb { &unrender_mb } else { &ident },
        acc,
    );
    MB.with(|m| m.set(false));
}

pub fn run_slice<C: for<'x> Cfg<'x, &'x [char]>>(job: &Job, acc: &mut Acc) {
    let bufs: Vec<Vec<char>> = job.inputs.to_vec();
    run_generic::<&[char], C>(
        job,
        &|i| &bufs[i][..],
        &|i| (bufs[i].as_ptr() as usize, bufs[i].len() * 4),
        &|i, s, _| index_norm(bufs[i].len(), s),
        &ident,
        acc,
    );
}

pub type CountingIter = std::iter::Map<std::iter::Enumerate<std::vec::IntoIter<char>>, fn((usize, char)) -> char>;
pub fn counting(v: Vec<char>) -> CountingIter {
    PULL_LAST.with(|l| l.set(None));
    v.into_iter().enumerate().map(log_item as fn((usize, char)) -> char)
}
pub type StreamIn = chumsky::input::Stream<CountingIter>;
impl<'a> InK<'a> for StreamIn {
    type T = char;
    type S = SimpleSpan<usize>;
}
pub fn run_stream<C: for<'x> Cfg<'x, StreamIn>>(job: &Job, acc: &mut Acc) {
    let bufs: Vec<Vec<char>> = job.inputs.to_vec();
    run_generic::<StreamIn, C>(
        job,
        &|i| chumsky::input::Stream::from_iter(counting(bufs[i].clone())),
        &|_| (0, 0),
        &|i, s, _| index_norm(bufs[i].len(), s),
        &ident,
        acc,
    );
}

/// an iterator that gives no size hint at all (like `filter`, `from_fn`, a lexer): the boxed stream kind uses
/// it, the plain stream kind an exact-size iterator
pub struct NoHint<I>(pub I);
impl<I: Iterator> Iterator for NoHint<I> {
    type Item = I::Item;
    fn next(&mut self) -> Option<I::Item> {
        self.0.next()
    }
    fn size_hint(&self) -> (usize, Option<usize>) {
        (0, None)
    }
}
pub type BoxedStreamIn<'a> = chumsky::input::BoxedStream<'a, char>;
impl<'a> InK<'a> for BoxedStreamIn<'a> {
    type T = char;
    type S = SimpleSpan<usize>;
}
pub fn run_boxed_stream<C: for<'x> Cfg<'x, BoxedStreamIn<'x>>>(job: &Job, acc: &mut Acc) {
    let bufs: Vec<Vec<char>> = job.inputs.to_vec();
    run_generic::<BoxedStreamIn, C>(
        job,
        &|i| chumsky::input::Stream::from_iter(NoHint(counting(bufs[i].clone()))).boxed(),
        &|_| (0, 0),
        &|i, s, _| index_norm(bufs[i].len(), s),
        &ident,
        acc,
    );
}

pub type MapFn<'a> = fn(&'a (char, SimpleSpan)) -> (&'a char, &'a SimpleSpan);
pub type MappedIn<'a> = chumsky::input::MappedInput<char, SimpleSpan, &'a [(char, SimpleSpan)], MapFn<'a>>;
impl<'a> InK<'a> for MappedIn<'a> {
    type T = char;
    type S = SimpleSpan<usize>;
    crate::borrow_leaves!();
}
fn map_tok<'a>(ts: &'a (char, SimpleSpan)) -> (&'a char, &'a SimpleSpan) {
    (&ts.0, &ts.1)
}
/// gapped layout: token i spans 3i+1..3i+2, end-of-input span = 3n..3n+1 (empty matches there: 3n+1..3n+1)
pub fn gapped_norm(n: usize, (a, b): (usize, usize)) -> Option<(usize, usize)> {
    if a > b || b > 3 * n + 1 {
        return None;
    }
    if a == b {
        return Some(((a + 1) / 3, (a + 1) / 3));
    }
    if a % 3 == 1 && b % 3 == 2 {
        let (s, e) = (a / 3, b / 3 + 1);
        if s < e && e <= n {
            return Some((s, e));
        }
    }
    None
}
pub fn run_mapped<C: for<'x> Cfg<'x, MappedIn<'x>>>(job: &Job, gapped: bool, acc: &mut Acc) {
    use chumsky::input::Input as _;
    let bufs: Vec<Vec<(char, SimpleSpan)>> = job
        .inputs
        .iter()
        .map(|t| t.iter().enumerate().map(|(i, c)| (*c, if gapped { (3 * i + 1..3 * i + 2).into() } else { (i..i + 1).into() })).collect())
        .collect();
    run_generic::<MappedIn, C>(
        job,
        &|i| {
            let n = bufs[i].len();
            // gapped: a NON-zero-width end-of-input span (as handed in by the `map(e.span(), ..)` idiom); only its end
            // is where an empty match at the end of the input lies
            let eoi: SimpleSpan = if gapped { (3 * n..3 * n + 1).into() } else { (n..n).into() };
            bufs[i].as_slice().map(eoi, map_tok as MapFn)
        },
        &|_| (0, 0),
        &|i, s, _| if gapped { gapped_norm(bufs[i].len(), s) } else { index_norm(bufs[i].len(), s) },
        &ident,
        acc,
    );
}

pub fn run_u8<C: for<'x> Cfg<'x, &'x [u8]>>(job: &Job, acc: &mut Acc) {
    let bufs: Vec<Vec<u8>> = job.inputs.iter().map(|t| t.iter().map(|c| *c as u8).collect()).collect();
    run_generic::<&[u8], C>(
        job,
        &|i| &bufs[i][..],
        &|i| (bufs[i].as_ptr() as usize, bufs[i].len()),
        &|i, s, _| index_norm(bufs[i].len(), s),
        &ident,
        acc,
    );
}

pub type IoIn<'a> = chumsky::input::IoInput<std::io::Cursor<&'a [u8]>>;
impl<'a> InK<'a> for IoIn<'a> {
    type T = u8;
    type S = SimpleSpan<usize>;
}
pub fn run_io<C: for<'x> Cfg<'x, IoIn<'x>>>(job: &Job, acc: &mut Acc) {
    let bufs: Vec<Vec<u8>> = job.inputs.iter().map(|t| t.iter().map(|c| *c as u8).collect()).collect();
    run_generic::<IoIn, C>(
        job,
        &|i| chumsky::input::IoInput::new(std::io::Cursor::new(&bufs[i][..])),
        &|_| (0, 0),
        &|i, s, _| index_norm(bufs[i].len(), s),
        &ident,
        acc,
    );
    // the same inputs behind a reader that is NOT at its start when it is handed over (a header has been read from it):
    // the input is what the reader yields from there on, positions count from there
    let hdr: Vec<Vec<u8>> = bufs.iter().map(|b| [b"HDR".as_slice(), b.as_slice()].concat()).collect();
    let j = Job { kind_name: "IoInput(reader handed over after a 3-byte header)", ..*job };
    run_generic::<IoIn, C>(
        &j,
        &|i| {
            let mut c = std::io::Cursor::new(&hdr[i][..]);
            c.set_position(3);
            chumsky::input::IoInput::new(c)
        },
        &|_| (0, 0),
        &|i, s, _| index_norm(bufs[i].len(), s),
        &ident,
        acc,
    );
}

// ---- IoInput over a reader that answers with short reads and `Interrupted` (environment deviations) -----------

thread_local! {
    /// the fault schedule of the readers created by `run_io_faulty`
    pub static IO_SCHED: std::cell::Cell<usize> = const { std::cell::Cell::new(0) };
}
/// schedule k -> (every read is short (1 byte)?, index of the read call that answers `Interrupted` first, or
/// usize::MAX for none, answer `Interrupted` before EVERY read?)
pub const IO_SCHEDULES: usize = 15;
pub fn io_schedule(k: usize) -> (bool, usize, bool) {
    match k {
        0 => (false, usize::MAX, false),
        1 => (true, usize::MAX, false),
        2..=7 => (false, k - 2, false),
        8..=13 => (true, k - 8, false),
        _ => (true, usize::MAX, true),
    }
}
pub const IO_SCHED_NAMES: [&str; IO_SCHEDULES] = [
    "IoInput(reader: no deviation)",
    "IoInput(reader: 1-byte short reads)",
    "IoInput(reader: Interrupted at read call 0)",
    "IoInput(reader: Interrupted at read call 1)",
    "IoInput(reader: Interrupted at read call 2)",
    "IoInput(reader: Interrupted at read call 3)",
    "IoInput(reader: Interrupted at read call 4)",
    "IoInput(reader: Interrupted at read call 5)",
    "IoInput(reader: 1-byte short reads, Interrupted at read call 0)",
    "IoInput(reader: 1-byte short reads, Interrupted at read call 1)",
    "IoInput(reader: 1-byte short reads, Interrupted at read call 2)",
    "IoInput(reader: 1-byte short reads, Interrupted at read call 3)",
    "IoInput(reader: 1-byte short reads, Interrupted at read call 4)",
    "IoInput(reader: 1-byte short reads, Interrupted at read call 5)",
    "IoInput(reader: 1-byte short reads, Interrupted once before every read)",
];
/// A `Read + Seek` over a byte slice whose `read` deviates from the default answer as its schedule says. Every
/// deviation is a legal answer of the `Read` contract (a short read; `ErrorKind::Interrupted`, which "typically
/// can be retried"), so the bytes delivered are always exactly those of the slice.
pub struct FaultyReader<'a> {
    inner: std::io::Cursor<&'a [u8]>,
    calls: usize,
    pending_interrupt: bool,
    sched: (bool, usize, bool),
}
impl<'a> FaultyReader<'a> {
    pub fn new(b: &'a [u8], k: usize) -> Self {
        FaultyReader { inner: std::io::Cursor::new(b), calls: 0, pending_interrupt: true, sched: io_schedule(k) }
    }
}
impl std::io::Read for FaultyReader<'_> {
    fn read(&mut self, buf: &mut [u8]) -> std::io::Result<usize> {
        let (short, at, every) = self.sched;
        let k = self.calls;
        if every {
            // alternate: Interrupted, then the real (short) read
            if self.pending_interrupt {
                self.pending_interrupt = false;
                return Err(std::io::ErrorKind::Interrupted.into());
            }
            self.pending_interrupt = true;
        }
        self.calls += 1;
        if k == at {
            return Err(std::io::ErrorKind::Interrupted.into());
        }
        let n = if short { buf.len().min(1) } else { buf.len() };
        self.inner.read(&mut buf[..n])
    }
}
impl std::io::Seek for FaultyReader<'_> {
    fn seek(&mut self, pos: std::io::SeekFrom) -> std::io::Result<u64> {
        self.inner.seek(pos)
    }
}
pub type IoFaultyIn<'a> = chumsky::input::IoInput<FaultyReader<'a>>;
impl<'a> InK<'a> for IoFaultyIn<'a> {
    type T = u8;
    type S = SimpleSpan<usize>;
}
/// every case under every fault schedule of the reader (the schedule is part of the recorded kind name)
pub fn run_io_faulty<C: for<'x> Cfg<'x, IoFaultyIn<'x>>>(job: &Job, acc: &mut Acc) {
    let bufs: Vec<Vec<u8>> = job.inputs.iter().map(|t| t.iter().map(|c| *c as u8).collect()).collect();
    for k in 0..IO_SCHEDULES {
        let j = Job { kind_name: IO_SCHED_NAMES[k], ..*job };
        run_generic::<IoFaultyIn, C>(
            &j,
            &|i| chumsky::input::IoInput::new(FaultyReader::new(&bufs[i][..], k)),
            &|_| (0, 0),
            &|i, s, _| index_norm(bufs[i].len(), s),
            &ident,
            acc,
        );
    }
}

pub type WithCtxIn<'a> = chumsky::input::WithContext<SimpleSpan<usize, u8>, &'a str>;
impl<'a> InK<'a> for WithCtxIn<'a> {
    type T = char;
    type S = SimpleSpan<usize, u8>;
    fn to_slice<C: Cfg<'a, Self>>(p: BP<'a, Self, C>) -> BP<'a, Self, C> {
        p.to_slice().map(|s: &str| Val::Sl(buf_offset(s.as_ptr() as usize, s.len()), s.chars().map(crate::interp::TokK::to_char).collect())).boxed()
    }
    fn slice_with<C: Cfg<'a, Self>>(p: BP<'a, Self, C>) -> BP<'a, Self, C> {
        p.map_with(|_, e| { let s: &str = e.slice(); Val::Sl(buf_offset(s.as_ptr() as usize, s.len()), s.chars().map(crate::interp::TokK::to_char).collect()) }).boxed()
    }
}
pub fn run_with_context<C: for<'x> Cfg<'x, WithCtxIn<'x>>>(job: &Job, mb: bool, acc: &mut Acc) {
    use chumsky::input::Input as _;
    MB.with(|m| m.set(mb));
    let bufs: Vec<String> = job.inputs.iter().map(|t| t.iter().map(|c| if mb { render(*c) } else { *c }).collect()).collect();
    let tables: Vec<Vec<usize>> = bufs.iter().map(|s| byte_table(s)).collect();
    run_generic::<WithCtxIn, C>(
        job,
        &|i| bufs[i].as_str().with_context(7u8),
        &|i| (bufs[i].as_ptr() as usize, bufs[i].len()),
        &|i, s, _| from_table(&tables[i], s),
        if mb { &unrender_mb } else { &ident },
        acc,
    );
    MB.with(|m| m.set(false));
}

pub type SpanFn = fn(SimpleSpan) -> core::ops::Range<usize>;
pub type MapSpanIn<'a> = chumsky::input::MappedSpan<core::ops::Range<usize>, &'a str, SpanFn>;
impl<'a> InK<'a> for MapSpanIn<'a> {
    type T = char;
    type S = core::ops::Range<usize>;
    fn to_slice<C: Cfg<'a, Self>>(p: BP<'a, Self, C>) -> BP<'a, Self, C> {
        p.to_slice().map(|s: &str| Val::Sl(buf_offset(s.as_ptr() as usize, s.len()), s.chars().map(crate::interp::TokK::to_char).collect())).boxed()
    }
    fn slice_with<C: Cfg<'a, Self>>(p: BP<'a, Self, C>) -> BP<'a, Self, C> {
        p.map_with(|_, e| { let s: &str = e.slice(); Val::Sl(buf_offset(s.as_ptr() as usize, s.len()), s.chars().map(crate::interp::TokK::to_char).collect()) }).boxed()
    }
}
fn rebase(s: SimpleSpan) -> core::ops::Range<usize> {
    s.start + 100..s.end + 100
}
pub fn run_map_span<C: for<'x> Cfg<'x, MapSpanIn<'x>>>(job: &Job, acc: &mut Acc) {
    use chumsky::input::Input as _;
    let bufs: Vec<String> = job.inputs.iter().map(|t| t.iter().collect()).collect();
    run_generic::<MapSpanIn, C>(
        job,
        &|i| bufs[i].as_str().map_span(rebase as SpanFn),
        &|i| (bufs[i].as_ptr() as usize, bufs[i].len()),
        &|i, (a, b), off| {
            // slice offsets are byte offsets in the buffer (not re-based); spans are re-based by +100
            if off {
                index_norm(bufs[i].len(), (a, b))
            } else if a >= 100 && b >= 100 {
                index_norm(bufs[i].len(), (a - 100, b - 100))
            } else {
                None
            }
        },
        &ident,
        acc,
    );
}

pub const ARR_N: usize = 3;
impl<'a> InK<'a> for &'a [char; ARR_N] {
    type T = char;
    type S = SimpleSpan<usize>;
    fn to_slice<C: Cfg<'a, Self>>(p: BP<'a, Self, C>) -> BP<'a, Self, C> {
        p.to_slice().map(chars_slice_val).fin()
    }
    fn slice_with<C: Cfg<'a, Self>>(p: BP<'a, Self, C>) -> BP<'a, Self, C> {
        p.map_with(|_, e| chars_slice_val(e.slice())).fin()
    }
    crate::borrow_leaves!();
}
/// `&[T; N]`: only the inputs of length exactly N are run (the others are skipped by `mk` never being
/// called: the job's input list is filtered by the unit)
pub fn run_array<C: for<'x> Cfg<'x, &'x [char; ARR_N]>>(job: &Job, acc: &mut Acc) {
    let bufs: Vec<[char; ARR_N]> = job.inputs.iter().map(|t| { let mut a = ['?'; ARR_N]; for (i, c) in t.iter().take(ARR_N).enumerate() { a[i] = *c; } a }).collect();
    assert!(job.inputs.iter().all(|t| t.len() == ARR_N), "array kind needs inputs of length {ARR_N}");
    run_generic::<&[char; ARR_N], C>(
        job,
        &|i| &bufs[i],
        &|i| (bufs[i].as_ptr() as usize, ARR_N * 4),
        &|_, s, _| index_norm(ARR_N, s),
        &ident,
        acc,
    );
}

impl<'a> InK<'a> for bytes::Bytes {
    type T = u8;
    type S = SimpleSpan<usize>;
    fn to_slice<C: Cfg<'a, Self>>(p: BP<'a, Self, C>) -> BP<'a, Self, C> {
        p.to_slice().map(|b: bytes::Bytes| u8_slice_val(&b)).fin()
    }
    fn slice_with<C: Cfg<'a, Self>>(p: BP<'a, Self, C>) -> BP<'a, Self, C> {
        p.map_with(|_, e| { let b: bytes::Bytes = e.slice(); u8_slice_val(&b) }).fin()
    }
}
pub fn run_bytes<C: for<'x> Cfg<'x, bytes::Bytes>>(job: &Job, acc: &mut Acc) {
    let bufs: Vec<bytes::Bytes> = job.inputs.iter().map(|t| bytes::Bytes::from(t.iter().map(|c| *c as u8).collect::<Vec<u8>>())).collect();
    run_generic::<bytes::Bytes, C>(
        job,
        &|i| bufs[i].clone(),
        &|i| (bufs[i].as_ptr() as usize, bufs[i].len()),
        &|i, s, _| index_norm(bufs[i].len(), s),
        &ident,
        acc,
    );
}

/// statically typed parsers: same judging as the boxed interpreter, the observation comes from generated code
fn run_static(job: &Job, fns: &[crate::stat::CaseFn], bufs: &[String], tables: &[Vec<usize>], acc: &mut Acc) {
    let mut gi = job.first;
    while gi < job.grammars.len() {
        if job.skip.contains(&gi) {
            gi += job.stride;
            continue;
        }
        let g = &job.grammars[gi];
        (job.progress)(gi);
        let has_not = job.skip_not_content && g.contains_not();
        let content_mask = if has_not { !(PSP | PFO | PEX | PCX | EMC) } else { !0 };
        for (ii, toks) in job.inputs.iter().enumerate() {
            acc.cases += 1;
            let (m, st) = sem::parse(g, toks, Sw::NONE, job.probes);
            acc.stats.add(&st);
            if m.unspecified {
                acc.unspecified += 1;
                continue;
            }
            BUF.with(|b| b.set((bufs[ii].as_ptr() as usize, bufs[ii].len())));
            let mut obs = (fns[gi])(bufs[ii].as_str(), job.lazy);
            let nf = |s: (usize, usize), _off: bool| from_table(&tables[ii], s);
            let (bad_sp, bad_sl) = normalise_obs(&mut obs, &nf, &ident);
            judge(job, EK::Rich, g, toks, &m, obs, bad_sp, bad_sl, content_mask, acc);
        }
        gi += job.stride;
    }
}

// ---- small helpers for the other engines -------------------------------------------------------------------
pub fn buf_off(ptr: usize, len: usize) -> usize {
    crate::interp::buf_offset(ptr, len)
}
#[allow(non_snake_case)]
pub fn BUF_SET(base: usize, len: usize) {
    BUF.with(|b| b.set((base, len)));
}
pub fn map_tok_fn<'a>() -> MapFn<'a> {
    map_tok as MapFn<'a>
}
