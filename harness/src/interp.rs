//! AST -> chumsky parser.  Every node is `.boxed()` (dyn dispatch through go_emit/go_check at
//! every edge) and — when probes are on — wrapped in a `map_with` that records the span, the
//! inspector state and the context seen by that node.  Generic over the input kind (`InK`), and
//! over the error / state / context types (`Cfg`).

use chumsky::error::{Cheap, EmptyErr, LabelError, Rich, RichPattern, RichReason, Simple};
use chumsky::extra::Full;
use chumsky::input::{Checkpoint, Cursor, ValueInput};
use chumsky::inspector::Inspector;
use chumsky::prelude::*;
use chumsky::{ConfigIterParser, IterParser};
use cvm::ast::{self, Bounds, Coll, Part, Sink, Val, G};
use cvm::sem::Probes;
use std::cell::Cell;
use std::collections::BTreeSet;

// ------------------------------------------------------------------------------------------------
// tokens
// ------------------------------------------------------------------------------------------------

pub trait TokK: Copy + PartialEq + Eq + core::fmt::Debug + chumsky::text::Char + 'static {
    fn from_char(c: char) -> Self;
    fn to_char(self) -> char;
}
thread_local! {
    /// multi-byte rendering of the alphabet for `char` tokens: b -> 'é' (2 bytes), c -> '𝄞' (4 bytes).
    /// Set before a parser is built and left unchanged until the last parse through it.
    pub static MB: Cell<bool> = const { Cell::new(false) };
}
pub fn render(c: char) -> char {
    match c {
        'b' => 'é',
        'c' => '𝄞',
        o => o,
    }
}
pub fn unrender_mb(c: char) -> char {
    match c {
        'é' => 'b',
        '𝄞' => 'c',
        o => o,
    }
}
impl TokK for char {
    fn from_char(c: char) -> Self {
        if MB.with(|m| m.get()) {
            render(c)
        } else {
            c
        }
    }
    fn to_char(self) -> char {
        if MB.with(|m| m.get()) {
            unrender_mb(self)
        } else {
            self
        }
    }
}
impl TokK for u8 {
    fn from_char(c: char) -> Self {
        c as u8
    }
    fn to_char(self) -> char {
        self as char
    }
}

/// span types the harness can observe
pub trait SpK: chumsky::span::Span + Clone + 'static {
    fn pair(&self) -> (usize, usize);
}
impl SpK for SimpleSpan<usize> {
    fn pair(&self) -> (usize, usize) {
        (self.start, self.end)
    }
}
impl SpK for SimpleSpan<usize, u8> {
    fn pair(&self) -> (usize, usize) {
        (self.start, self.end)
    }
}
impl SpK for core::ops::Range<usize> {
    fn pair(&self) -> (usize, usize) {
        (self.start, self.end)
    }
}

thread_local! {
    /// base address and byte length of the buffer currently being parsed (for zero-copy checks)
    pub static BUF: Cell<(usize, usize)> = const { Cell::new((0, 0)) };
}

/// offset of a sub-slice inside the current buffer, or usize::MAX if it is not inside it
pub fn buf_offset(ptr: usize, len: usize) -> usize {
    let (base, blen) = BUF.with(|b| b.get());
    if ptr >= base && ptr + len <= base + blen {
        ptr - base
    } else {
        usize::MAX
    }
}

// ------------------------------------------------------------------------------------------------
// observed errors
// ------------------------------------------------------------------------------------------------

#[derive(Clone, Copy, Debug, PartialEq, Eq)]
pub enum EK {
    Empty,
    Cheap,
    Simple,
    Rich,
}

#[derive(Clone, Debug, PartialEq, Eq)]
pub enum OExp {
    Tok(char),
    Any,
    SomethingElse,
    End,
    Label(String),
    Other(String),
}

#[derive(Clone, Debug, PartialEq, Eq)]
pub struct ObsErr {
    pub kind: EK,
    /// raw span as reported (input-kind specific offsets)
    pub span: (usize, usize),
    pub found: Option<char>,
    pub exp: Vec<OExp>,
    pub custom: Option<String>,
    pub ctx: Vec<(String, (usize, usize))>,
}

pub trait ErrK<'a, I: InK<'a>>: chumsky::error::Error<'a, I> + LabelError<'a, I, &'static str> + Clone + 'a {
    const KIND: EK;
    fn custom_err(span: I::Span, msg: String) -> Self;
    /// the span-preserving `map_err` mapper
    fn tag(self) -> Self;
    fn obs(&self) -> ObsErr;
}

impl<'a, I: InK<'a>> ErrK<'a, I> for EmptyErr {
    const KIND: EK = EK::Empty;
    fn custom_err(_: I::Span, _: String) -> Self {
        EmptyErr::default()
    }
    fn tag(self) -> Self {
        self
    }
    fn obs(&self) -> ObsErr {
        ObsErr { kind: EK::Empty, span: (0, 0), found: None, exp: vec![], custom: None, ctx: vec![] }
    }
}
impl<'a, I: InK<'a>> ErrK<'a, I> for Cheap<I::Span> {
    const KIND: EK = EK::Cheap;
    fn custom_err(span: I::Span, _: String) -> Self {
        Cheap::new(span)
    }
    fn tag(self) -> Self {
        self
    }
    fn obs(&self) -> ObsErr {
        ObsErr { kind: EK::Cheap, span: self.span().pair(), found: None, exp: vec![], custom: None, ctx: vec![] }
    }
}
impl<'a, I: InK<'a>> ErrK<'a, I> for Simple<'a, I::Token, I::Span> {
    const KIND: EK = EK::Simple;
    fn custom_err(span: I::Span, _: String) -> Self {
        Simple::new(None, span)
    }
    fn tag(self) -> Self {
        self
    }
    fn obs(&self) -> ObsErr {
        ObsErr {
            kind: EK::Simple,
            span: self.span().pair(),
            found: self.found().map(|t| t.to_char()),
            exp: vec![],
            custom: None,
            ctx: vec![],
        }
    }
}
fn obs_pat<T: TokK>(p: &RichPattern<'_, T>) -> OExp {
    match p {
        RichPattern::Token(t) => OExp::Tok((**t).to_char()),
        RichPattern::Any => OExp::Any,
        RichPattern::SomethingElse => OExp::SomethingElse,
        RichPattern::EndOfInput => OExp::End,
        RichPattern::Label(l) => OExp::Label(l.to_string()),
        o => OExp::Other(format!("{o:?}")),
    }
}
impl<'a, I: InK<'a>> ErrK<'a, I> for Rich<'a, I::Token, I::Span> {
    const KIND: EK = EK::Rich;
    fn custom_err(span: I::Span, msg: String) -> Self {
        Rich::custom(span, msg)
    }
    fn tag(self) -> Self {
        let sp = self.span().clone();
        <Self as LabelError<'a, I, &'static str>>::merge_expected_found(self, ["M"], None, sp)
    }
    fn obs(&self) -> ObsErr {
        let (exp, custom) = match self.reason() {
            RichReason::ExpectedFound { expected, .. } => (expected.iter().map(obs_pat).collect(), None),
            RichReason::Custom(m) => (vec![], Some(m.clone())),
        };
        ObsErr {
            kind: EK::Rich,
            span: self.span().pair(),
            found: self.found().map(|t| t.to_char()),
            exp,
            custom,
            ctx: self.contexts().map(|(l, s)| (format!("{}", pat_label(l)), s.pair())).collect(),
        }
    }
}
fn pat_label<T: TokK>(p: &RichPattern<'_, T>) -> String {
    match p {
        RichPattern::Label(l) => l.to_string(),
        o => format!("{o:?}"),
    }
}

pub fn exp_set(e: &ObsErr) -> BTreeSet<cvm::sem::Exp> {
    e.exp
        .iter()
        .map(|x| match x {
            OExp::Tok(c) => cvm::sem::Exp::Tok(*c),
            OExp::Any => cvm::sem::Exp::Any,
            OExp::SomethingElse => cvm::sem::Exp::SomethingElse,
            OExp::End => cvm::sem::Exp::End,
            OExp::Label(l) => cvm::sem::Exp::Label(l.clone()),
            OExp::Other(l) => cvm::sem::Exp::Label(format!("?{l}")),
        })
        .collect()
}

// ------------------------------------------------------------------------------------------------
// state and context kinds
// ------------------------------------------------------------------------------------------------

pub trait StK: Default + Clone {
    fn obs(&mut self) -> Option<(u32, u64)>;
}
impl StK for () {
    fn obs(&mut self) -> Option<(u32, u64)> {
        None
    }
}

/// The C18 inspector: counts and hashes every token it is shown; a checkpoint is a snapshot.
#[derive(Clone, Copy, Debug, PartialEq, Eq)]
pub struct Track {
    pub count: u32,
    pub hash: u64,
    pub saves: u32,
    pub rewinds: u32,
}
impl Default for Track {
    fn default() -> Self {
        Track { count: cvm::sem::STATE0.0, hash: cvm::sem::STATE0.1, saves: 0, rewinds: 0 }
    }
}
impl StK for Track {
    fn obs(&mut self) -> Option<(u32, u64)> {
        Some((self.count, self.hash))
    }
}
impl<'a, I: InK<'a>> Inspector<'a, I> for Track {
    type Checkpoint = (u32, u64);
    fn on_token(&mut self, t: &I::Token) {
        self.count += 1;
        self.hash = ast::track_step(self.hash, t.to_char());
    }
    fn on_save<'p>(&self, _: &Cursor<'a, 'p, I>) -> (u32, u64) {
        (self.count, self.hash)
    }
    fn on_rewind<'p>(&mut self, m: &Checkpoint<'a, 'p, I, (u32, u64)>) {
        let (c, h) = *m.inspector();
        self.count = c;
        self.hash = h;
        self.rewinds += 1;
    }
}

pub trait CxK: Default + Clone {
    fn obs(&self) -> Option<char>;
}
impl CxK for () {
    fn obs(&self) -> Option<char> {
        None
    }
}
impl CxK for char {
    fn obs(&self) -> Option<char> {
        Some(*self)
    }
}

// ------------------------------------------------------------------------------------------------
// input kinds and configurations
// ------------------------------------------------------------------------------------------------

pub type Ex<'a, I, C> = Full<<C as Cfg<'a, I>>::Err, <C as Cfg<'a, I>>::St, <C as Cfg<'a, I>>::Cx>;
pub type BP<'a, I, C> = Boxed<'a, 'a, I, Val, Ex<'a, I, C>>;

fn unsupported<T>(what: &str) -> T {
    panic!("harness: node {what} is not supported by this input kind / configuration")
}

pub trait InK<'a>: ValueInput<'a, Span = <Self as InK<'a>>::S, Token = <Self as InK<'a>>::T> + Sized + 'a {
    type T: TokK;
    type S: SpK;
    fn to_slice<C: Cfg<'a, Self>>(_p: BP<'a, Self, C>) -> BP<'a, Self, C> {
        unsupported("to_slice")
    }
    fn slice_with<C: Cfg<'a, Self>>(_p: BP<'a, Self, C>) -> BP<'a, Self, C> {
        unsupported("slice_with")
    }
    /// `any_ref()` / `select_ref(..)`: only inputs that can lend their tokens (`BorrowInput`)
    fn any_ref<C: Cfg<'a, Self>>() -> BP<'a, Self, C> {
        unsupported("any_ref on an input that is not a BorrowInput")
    }
    fn select_ref<C: Cfg<'a, Self>>(_set: &'static str, _state_probe: bool) -> BP<'a, Self, C> {
        unsupported("select_ref on an input that is not a BorrowInput")
    }
}

/// the two by-reference leaves for a borrowing input kind
#[macro_export]
macro_rules! borrow_leaves {
    () => {
        fn any_ref<C: Cfg<'a, Self>>() -> BP<'a, Self, C> {
            chumsky::primitive::any_ref().map(|t: &Self::T| Val::T(TokK::to_char(*t))).fin()
        }
        fn select_ref<C: Cfg<'a, Self>>(set: &'static str, st: bool) -> BP<'a, Self, C> {
            if set.ends_with('!') {
                // `select_ref!` with overlapping arms told apart by guards only
                let mut ks = set.chars().filter(|c| *c != '!');
                let (k0, k1, k2) = (ks.next(), ks.next(), ks.next());
                let mk = move |t: &Self::T, e: &mut chumsky::input::MapExtra<'a, '_, Self, Ex<'a, Self, C>>| {
                    let v = Val::Tag(TokK::to_char(*t));
                    match (st, e.state().obs()) {
                        (true, Some((n, h))) => Val::Q(n, h, Box::new(v)),
                        _ => v,
                    }
                };
                return chumsky::select_ref! {
                    t = e if Some(TokK::to_char(*t)) == k0 => mk(t, e),
                    t = e if Some(TokK::to_char(*t)) == k1 => mk(t, e),
                    t = e if Some(TokK::to_char(*t)) == k2 => mk(t, e),
                }
                .fin();
            }
            chumsky::primitive::select_ref(move |t: &Self::T, e: &mut chumsky::input::MapExtra<'a, '_, Self, Ex<'a, Self, C>>| {
                let c = TokK::to_char(*t);
                if set.contains(c) {
                    let v = Val::Tag(c);
                    Some(match (st, e.state().obs()) {
                        (true, Some((n, h))) => Val::Q(n, h, Box::new(v)),
                        _ => v,
                    })
                } else {
                    None
                }
            })
            .fin()
        }
    };
}

impl<'a> InK<'a> for &'a str {
    type T = char;
    type S = SimpleSpan<usize>;
    fn to_slice<C: Cfg<'a, Self>>(p: BP<'a, Self, C>) -> BP<'a, Self, C> {
        p.to_slice().map(str_slice_val).fin()
    }
    fn slice_with<C: Cfg<'a, Self>>(p: BP<'a, Self, C>) -> BP<'a, Self, C> {
        p.map_with(|_, e| str_slice_val(e.slice())).fin()
    }
}
pub fn str_slice_val(s: &str) -> Val {
    Val::Sl(buf_offset(s.as_ptr() as usize, s.len()), s.chars().map(TokK::to_char).collect())
}
pub fn chars_slice_val(s: &[char]) -> Val {
    let o = buf_offset(s.as_ptr() as usize, s.len() * 4);
    Val::Sl(if o == usize::MAX { o } else { o / 4 }, s.iter().collect())
}
pub fn u8_slice_val(s: &[u8]) -> Val {
    Val::Sl(buf_offset(s.as_ptr() as usize, s.len()), s.iter().map(|b| *b as char).collect())
}
impl<'a> InK<'a> for &'a [char] {
    type T = char;
    type S = SimpleSpan<usize>;
    fn to_slice<C: Cfg<'a, Self>>(p: BP<'a, Self, C>) -> BP<'a, Self, C> {
        p.to_slice().map(chars_slice_val).fin()
    }
    fn slice_with<C: Cfg<'a, Self>>(p: BP<'a, Self, C>) -> BP<'a, Self, C> {
        p.map_with(|_, e| chars_slice_val(e.slice())).fin()
    }
    borrow_leaves!();
}
impl<'a> InK<'a> for &'a [u8] {
    type T = u8;
    type S = SimpleSpan<usize>;
    fn to_slice<C: Cfg<'a, Self>>(p: BP<'a, Self, C>) -> BP<'a, Self, C> {
        p.to_slice().map(u8_slice_val).fin()
    }
    fn slice_with<C: Cfg<'a, Self>>(p: BP<'a, Self, C>) -> BP<'a, Self, C> {
        p.map_with(|_, e| u8_slice_val(e.slice())).fin()
    }
    borrow_leaves!();
}

pub trait Cfg<'a, I: InK<'a>>: Sized + 'static {
    type Err: ErrK<'a, I>;
    type St: Inspector<'a, I> + StK + 'a;
    type Cx: CxK + 'a;

    fn with_ctx(_c: char, _p: BP<'a, I, Self>) -> BP<'a, I, Self> {
        unsupported("with_ctx")
    }
    fn then_with_ctx(_a: BP<'a, I, Self>, _b: BP<'a, I, Self>) -> BP<'a, I, Self> {
        unsupported("then_with_ctx")
    }
    fn ignore_with_ctx(_a: BP<'a, I, Self>, _b: BP<'a, I, Self>) -> BP<'a, I, Self> {
        unsupported("ignore_with_ctx")
    }
    fn map_ctx(_p: BP<'a, I, Self>) -> BP<'a, I, Self> {
        unsupported("map_ctx")
    }
    fn just_ctx() -> BP<'a, I, Self> {
        unsupported("just_ctx")
    }
    fn rep_ctx(_p: BP<'a, I, Self>) -> BP<'a, I, Self> {
        unsupported("rep_ctx")
    }
    fn try_rep_ctx(_p: BP<'a, I, Self>) -> BP<'a, I, Self> {
        unsupported("try_rep_ctx")
    }
    fn rep_ctx_max(_p: BP<'a, I, Self>) -> BP<'a, I, Self> {
        unsupported("rep_ctx_max")
    }
    fn rep_ctx_pre(_p: BP<'a, I, Self>, _st: ast::Bounds, _kind: u8) -> BP<'a, I, Self> {
        unsupported("rep_ctx_pre")
    }
    fn with_state(_p: BP<'a, I, Self>) -> BP<'a, I, Self> {
        unsupported("with_state")
    }
    fn ctx_bare(_p: BP<'a, I, Self>, _kind: u8) -> BP<'a, I, Self> {
        unsupported("ctx_bare")
    }
    fn ctx_iter(_kind: u8, _a: BP<'a, I, Self>, _item: BP<'a, I, Self>, _sink: &Sink, _pr: Probes) -> BP<'a, I, Self> {
        unsupported("ctx_iter")
    }
    /// an iterable chain one of whose two links is a context provider (`ctx_first`: the provider is the first link)
    fn ctx_chain<P, PO>(_other: P, _ctx_first: bool, _kind: u8, _a: BP<'a, I, Self>, _item: BP<'a, I, Self>, _sink: &Sink, _pr: Probes) -> BP<'a, I, Self>
    where
        PO: 'a,
        P: IterParser<'a, I, Val, Ex<'a, I, Self>> + Parser<'a, I, PO, Ex<'a, I, Self>> + Clone + 'a,
    {
        unsupported("ctx_chain")
    }
}

pub struct CEmpty;
pub struct CCheap;
pub struct CSimple;
pub struct CRich;
/// Rich errors + the tracking inspector
pub struct CRichSt;
/// Rich errors + `char` context
pub struct CRichCx;

impl<'a, I: InK<'a>> Cfg<'a, I> for CEmpty {
    type Err = EmptyErr;
    type St = ();
    type Cx = ();
}
impl<'a, I: InK<'a>> Cfg<'a, I> for CCheap {
    type Err = Cheap<I::Span>;
    type St = ();
    type Cx = ();
}
impl<'a, I: InK<'a>> Cfg<'a, I> for CSimple {
    type Err = Simple<'a, I::Token, I::Span>;
    type St = ();
    type Cx = ();
}
impl<'a, I: InK<'a>> Cfg<'a, I> for CRich {
    type Err = Rich<'a, I::Token, I::Span>;
    type St = ();
    type Cx = ();
}
impl<'a, I: InK<'a>> Cfg<'a, I> for CRichSt {
    type Err = Rich<'a, I::Token, I::Span>;
    type St = Track;
    type Cx = ();
    fn with_state(p: BP<'a, I, Self>) -> BP<'a, I, Self> {
        p.with_state(Track::default()).fin()
    }
}
impl<'a, I: InK<'a>> Cfg<'a, I> for CRichCx {
    type Err = Rich<'a, I::Token, I::Span>;
    type St = ();
    type Cx = char;
    fn with_ctx(c: char, p: BP<'a, I, Self>) -> BP<'a, I, Self> {
        p.with_ctx(c).fin()
    }
    fn then_with_ctx(a: BP<'a, I, Self>, b: BP<'a, I, Self>) -> BP<'a, I, Self> {
        a.map(|v| ast::ctx_of(&v)).then_with_ctx(b).map(|(c, v)| Val::P(Box::new(Val::T(c)), Box::new(v))).fin()
    }
    fn ignore_with_ctx(a: BP<'a, I, Self>, b: BP<'a, I, Self>) -> BP<'a, I, Self> {
        a.map(|v| ast::ctx_of(&v)).ignore_with_ctx(b).fin()
    }
    fn map_ctx(p: BP<'a, I, Self>) -> BP<'a, I, Self> {
        chumsky::primitive::map_ctx::<_, _, _, Ex<'a, I, Self>, _, _>(|c: &char| ast::succ(*c), p).fin()
    }
    fn just_ctx() -> BP<'a, I, Self> {
        just(I::T::from_char('a'))
            .configure(|cfg, ctx: &char| cfg.seq(I::T::from_char(*ctx)))
            .map(|t: I::T| Val::T(t.to_char()))
            .fin()
    }
    fn rep_ctx(p: BP<'a, I, Self>) -> BP<'a, I, Self> {
        p.repeated().configure(|cfg, ctx: &char| cfg.exactly(ast::count_of(*ctx))).collect::<Vec<_>>().map(Val::L).fin()
    }
    fn rep_ctx_max(p: BP<'a, I, Self>) -> BP<'a, I, Self> {
        p.repeated().configure(|cfg, ctx: &char| cfg.at_most(ast::count_of(*ctx))).collect::<Vec<_>>().map(Val::L).fin()
    }
    fn rep_ctx_pre(p: BP<'a, I, Self>, st: ast::Bounds, kind: u8) -> BP<'a, I, Self> {
        let mut r = p.repeated();
        if st.exactly {
            r = r.exactly(st.min as usize);
        } else {
            if st.min > 0 {
                r = r.at_least(st.min as usize);
            }
            if let Some(m) = st.max {
                r = r.at_most(m as usize);
            }
        }
        r.configure(move |cfg, ctx: &char| {
            let n = ast::count_of(*ctx);
            match kind {
                0 => cfg.exactly(n),
                1 => cfg.at_most(n),
                _ => cfg.at_least(n),
            }
        })
        .collect::<Vec<_>>()
        .map(Val::L)
        .fin()
    }
    fn ctx_bare(p: BP<'a, I, Self>, kind: u8) -> BP<'a, I, Self> {
        // the configured iterable parser itself is the parser (no collect): `Parser for IterConfigure` /
        // `Parser for TryIterConfigure`; kinds 3..5 go through count()
        let tc = |cfg: chumsky::combinator::RepeatedCfg, ctx: &char, span: I::Span| {
            if *ctx != 'c' {
                Ok(cfg.exactly(ast::count_of(*ctx)))
            } else {
                Err(<Rich<'a, I::Token, I::Span> as ErrK<'a, I>>::custom_err(span, "TC".into()))
            }
        };
        match kind {
            0 => Parser::map(p.repeated().configure(|cfg, ctx: &char| cfg.exactly(ast::count_of(*ctx))), |()| Val::U).fin(),
            1 => Parser::map(p.repeated().configure(|cfg, ctx: &char| cfg.at_most(ast::count_of(*ctx))), |()| Val::U).fin(),
            2 => Parser::map(p.repeated().try_configure(tc), |()| Val::U).fin(),
            3 => p.repeated().configure(|cfg, ctx: &char| cfg.exactly(ast::count_of(*ctx))).count().map(Val::N).fin(),
            4 => p.repeated().configure(|cfg, ctx: &char| cfg.at_most(ast::count_of(*ctx))).count().map(Val::N).fin(),
            _ => p.repeated().try_configure(tc).count().map(Val::N).fin(),
        }
    }
    fn ctx_iter(kind: u8, a: BP<'a, I, Self>, item: BP<'a, I, Self>, sink: &Sink, pr: Probes) -> BP<'a, I, Self> {
        // the context provider itself is the iterable parser handed to the sink
        let a = a.map(|v| ast::ctx_of(&v));
        macro_rules! go {
            ($rep:expr) => {
                if kind / 3 == 0 {
                    apply_sink_chain::<I, Self, _, _>(a.ignore_with_ctx($rep), sink, pr)
                } else {
                    apply_sink_chain::<I, Self, _, _>(a.then_with_ctx($rep), sink, pr)
                }
            };
        }
        match kind % 3 {
            0 => go!(item.repeated()),
            1 => go!(item.repeated().configure(|cfg, ctx: &char| cfg.at_most(ast::count_of(*ctx)))),
            _ => go!(item.repeated().configure(|cfg, ctx: &char| cfg.exactly(ast::count_of(*ctx)))),
        }
    }
    fn ctx_chain<P, PO>(other: P, ctx_first: bool, kind: u8, a: BP<'a, I, Self>, item: BP<'a, I, Self>, sink: &Sink, pr: Probes) -> BP<'a, I, Self>
    where
        PO: 'a,
        P: IterParser<'a, I, Val, Ex<'a, I, Self>> + Parser<'a, I, PO, Ex<'a, I, Self>> + Clone + 'a,
    {
        let a = a.map(|v| ast::ctx_of(&v));
        macro_rules! link {
            ($prov:expr) => {
                if ctx_first {
                    apply_sink_chain::<I, Self, _, _>($prov.then(other), sink, pr)
                } else {
                    apply_sink_chain::<I, Self, _, _>(other.then($prov), sink, pr)
                }
            };
        }
        macro_rules! go {
            ($rep:expr) => {
                if kind / 3 == 0 {
                    link!(a.ignore_with_ctx($rep))
                } else {
                    link!(a.then_with_ctx($rep))
                }
            };
        }
        match kind % 3 {
            0 => go!(item.repeated()),
            1 => go!(item.repeated().configure(|cfg, ctx: &char| cfg.at_most(ast::count_of(*ctx)))),
            _ => go!(item.repeated().configure(|cfg, ctx: &char| cfg.exactly(ast::count_of(*ctx)))),
        }
    }
    fn try_rep_ctx(p: BP<'a, I, Self>) -> BP<'a, I, Self> {
        p.repeated()
            .try_configure(|cfg, ctx: &char, span| {
                if *ctx != 'c' {
                    Ok(cfg.exactly(ast::count_of(*ctx)))
                } else {
                    Err(<Rich<'a, I::Token, I::Span> as ErrK<'a, I>>::custom_err(span, "TC".into()))
                }
            })
            .collect::<Vec<_>>()
            .map(Val::L)
            .fin()
    }
}

// ------------------------------------------------------------------------------------------------
// the interpreter
// ------------------------------------------------------------------------------------------------

thread_local! {
    /// the recursion handles of the `Rec` nodes currently being built, innermost last; type-erased
    /// pointers to `BP<'a, I, C>` values that live on the stack of the builder for exactly as long as
    /// they are on this stack
    static REC: std::cell::RefCell<Vec<*const ()>> = const { std::cell::RefCell::new(Vec::new()) };
    /// the shared parser values of the `Let` nodes currently being built (same discipline)
    static LET: std::cell::RefCell<Vec<*const ()>> = const { std::cell::RefCell::new(Vec::new()) };
}

thread_local! {
    /// clone mode (C13): every combinator value is cloned once, the original dropped, and the
    /// *clone* is what gets boxed and used — so each combinator's own `Clone` impl is exercised
    /// (a `Boxed` only clones an `Rc`).
    pub static CLONE_MODE: Cell<bool> = const { Cell::new(false) };
}

/// `.fin()` is `.boxed()`, taken through a clone in clone mode
pub trait Fin<'a, I: chumsky::input::Input<'a>, E: chumsky::extra::ParserExtra<'a, I>>: Sized {
    fn fin(self) -> Boxed<'a, 'a, I, Val, E>;
}
impl<'a, I: chumsky::input::Input<'a>, E: chumsky::extra::ParserExtra<'a, I>, P> Fin<'a, I, E> for P
where
    P: Parser<'a, I, Val, E> + Clone + 'a,
{
    fn fin(self) -> Boxed<'a, 'a, I, Val, E> {
        if CLONE_MODE.with(|c| c.get()) {
            let q = self.clone();
            drop(self);
            q.boxed()
        } else {
            self.boxed()
        }
    }
}

fn bx(v: Val) -> Box<Val> {
    Box::new(v)
}

/// an extension parser that nests another parser (C04: separate check path)
pub struct ExtW<'a, I: InK<'a>, C: Cfg<'a, I>> {
    inner: BP<'a, I, C>,
    own_check: bool,
}
impl<'a, I: InK<'a>, C: Cfg<'a, I>> Clone for ExtW<'a, I, C> {
    fn clone(&self) -> Self {
        ExtW { inner: self.inner.clone(), own_check: self.own_check }
    }
}
impl<'a, I: InK<'a>, C: Cfg<'a, I>> chumsky::extension::v1::ExtParser<'a, I, Val, Ex<'a, I, C>> for ExtW<'a, I, C> {
    fn parse(&self, inp: &mut chumsky::input::InputRef<'a, '_, I, Ex<'a, I, C>>) -> Result<Val, C::Err> {
        inp.parse(&self.inner).map(|v| Val::M(bx(v)))
    }
    fn check(&self, inp: &mut chumsky::input::InputRef<'a, '_, I, Ex<'a, I, C>>) -> Result<(), C::Err> {
        if self.own_check {
            inp.check(&self.inner)
        } else {
            self.parse(inp).map(|_| ())
        }
    }
}

pub fn probe<'a, I: InK<'a>, C: Cfg<'a, I>>(p: BP<'a, I, C>, pr: Probes) -> BP<'a, I, C> {
    if !(pr.span || pr.state || pr.ctx) {
        return p;
    }
    p.map_with(move |v, e| {
        let mut v = v;
        if pr.span {
            let (s0, s1) = e.span().pair();
            v = Val::S(s0, s1, bx(v));
        }
        if pr.state {
            if let Some((c, h)) = e.state().obs() {
                v = Val::Q(c, h, bx(v));
            }
        }
        if pr.ctx {
            if let Some(c) = e.ctx().obs() {
                v = Val::Cx(c, bx(v));
            }
        }
        v
    })
    .fin()
}

fn catch_build<'a, I: InK<'a>, C: Cfg<'a, I>>(g: &G, pr: Probes) -> std::thread::Result<BP<'a, I, C>> {
    std::panic::catch_unwind(std::panic::AssertUnwindSafe(|| build::<I, C>(g, pr)))
}

pub fn build<'a, I: InK<'a>, C: Cfg<'a, I>>(g: &G, pr: Probes) -> BP<'a, I, C> {
    probe::<I, C>(build0::<I, C>(g, pr), pr)
}

fn tk<'a, I: InK<'a>>(c: char) -> I::T {
    I::T::from_char(c)
}
fn set<'a, I: InK<'a>>(s: &str) -> Vec<I::T> {
    s.chars().map(I::T::from_char).collect()
}

fn apply_sink<'a, I, C, P>(p: P, sink: &Sink, pr: Probes) -> BP<'a, I, C>
where
    I: InK<'a>,
    C: Cfg<'a, I>,
    P: IterParser<'a, I, Val, Ex<'a, I, C>> + Parser<'a, I, (), Ex<'a, I, C>> + Clone + 'a,
{
    match sink {
        Sink::Vec => p.collect::<Vec<Val>>().map(Val::L).fin(),
        Sink::Count => p.count().map(Val::N).fin(),
        Sink::Str => unsupported("Sink::Str is applied by build_rep/build_sep"),
        Sink::Bare => Parser::map(p, |()| Val::U).fin(),
        Sink::Exactly(0) => p.collect_exactly::<[Val; 0]>().map(|a| Val::L(a.into())).fin(),
        Sink::Exactly(1) => p.collect_exactly::<[Val; 1]>().map(|a| Val::L(a.into())).fin(),
        Sink::Exactly(2) => p.collect_exactly::<[Val; 2]>().map(|a| Val::L(a.into())).fin(),
        Sink::Exactly(3) => p.collect_exactly::<[Val; 3]>().map(|a| Val::L(a.into())).fin(),
        Sink::Exactly(_) => unsupported("collect_exactly N>3"),
        Sink::Enumerate => p
            .enumerate()
            .collect::<Vec<(usize, Val)>>()
            .map(|v| Val::L(v.into_iter().map(|(i, x)| Val::P(bx(Val::N(i)), bx(x))).collect()))
            .fin(),
        Sink::Foldl(init) => build::<I, C>(init, pr).foldl(p, |acc, x| Val::P(bx(acc), bx(x))).fin(),
        Sink::Foldr(init) => p.foldr(build::<I, C>(init, pr), |x, acc| Val::P(bx(x), bx(acc))).fin(),
        Sink::FoldlWith(init) => build::<I, C>(init, pr)
            .foldl_with(p, |acc, x, e| {
                let (s0, s1) = e.span().pair();
                Val::S(s0, s1, bx(Val::P(bx(acc), bx(x))))
            })
            .fin(),
        Sink::FoldrWith(init) => p
            .foldr_with(build::<I, C>(init, pr), |x, acc, e| {
                let (s0, s1) = e.span().pair();
                Val::S(s0, s1, bx(Val::P(bx(x), bx(acc))))
            })
            .fin(),
    }
}

/// Apply repetition bounds in the three ways the API offers (builder methods, `exactly`,
/// `configure`), then hand the iterable parser to `$k`.
macro_rules! with_bounds {
    (nocfg $p:expr, $bd:expr, |$q:ident| $k:expr) => {{
        let (min, max) = ($bd.min as usize, $bd.max.map(|m| m as usize));
        if $bd.cfg {
            unsupported("configure() on separated_by (only Repeated and Just are configurable)")
        } else if $bd.exactly {
            let $q = $p.exactly(min);
            $k
        } else {
            let mut $q = $p;
            if min > 0 {
                $q = $q.at_least(min);
            }
            if let Some(m) = max {
                $q = $q.at_most(m);
            }
            $k
        }
    }};
    ($p:expr, $bd:expr, |$q:ident| $k:expr) => {{
        let (min, max) = ($bd.min as usize, $bd.max.map(|m| m as usize));
        if $bd.cfg {
            let $q = $p.configure(move |cfg, _ctx| {
                let cfg = cfg.at_least(min);
                match max {
                    Some(m) => cfg.at_most(m),
                    None => cfg,
                }
            });
            $k
        } else if $bd.exactly {
            let $q = $p.exactly(min);
            $k
        } else {
            let mut $q = $p;
            if min > 0 {
                $q = $q.at_least(min);
            }
            if let Some(m) = max {
                $q = $q.at_most(m);
            }
            $k
        }
    }};
}

/// the sinks applied to an `IterChain` (a slimmer list than `apply_sink`: 20 link combinations are instantiated)
fn apply_sink_chain<'a, I, C, P, PO>(p: P, sink: &Sink, pr: Probes) -> BP<'a, I, C>
where
    I: InK<'a>,
    C: Cfg<'a, I>,
    PO: 'a,
    P: IterParser<'a, I, Val, Ex<'a, I, C>> + Parser<'a, I, PO, Ex<'a, I, C>> + Clone + 'a,
{
    match sink {
        Sink::Vec => p.collect::<Vec<Val>>().map(Val::L).fin(),
        Sink::Count => p.count().map(Val::N).fin(),
        Sink::Bare => Parser::map(p, |_: PO| Val::U).fin(),
        Sink::Exactly(1) => p.collect_exactly::<[Val; 1]>().map(|a| Val::L(a.into())).fin(),
        Sink::Exactly(2) => p.collect_exactly::<[Val; 2]>().map(|a| Val::L(a.into())).fin(),
        Sink::Foldl(init) => build::<I, C>(init, pr).foldl(p, |acc, x| Val::P(bx(acc), bx(x))).fin(),
        Sink::Foldr(init) => p.foldr(build::<I, C>(init, pr), |x, acc| Val::P(bx(x), bx(acc))).fin(),
        Sink::FoldlWith(init) => build::<I, C>(init, pr)
            .foldl_with(p, |acc, x, e| {
                let (s0, s1) = e.span().pair();
                Val::S(s0, s1, bx(Val::P(bx(acc), bx(x))))
            })
            .fin(),
        _ => unsupported("this sink on an iter_chain"),
    }
}

/// build one link of an `IterChain` and hand the iterable parser to `$k`
macro_rules! with_part {
    ($I:ty, $C:ty, $part:expr, $pr:expr, |$q:ident| $k:expr) => {
        match $part {
            Part::Rep(item, bd) => {
                let $q = build::<$I, $C>(item, $pr).repeated().at_least(bd.min as usize).at_most(bd.max.map_or(usize::MAX, |m| m as usize));
                $k
            }
            Part::Sep(item, sep, bd, l, t) => {
                let mut q = build::<$I, $C>(item, $pr).separated_by(build::<$I, $C>(sep, $pr)).at_least(bd.min as usize).at_most(bd.max.map_or(usize::MAX, |m| m as usize));
                if *l {
                    q = q.allow_leading();
                }
                if *t {
                    q = q.allow_trailing();
                }
                let $q = q;
                $k
            }
            Part::Opt(a) => {
                let $q = build::<$I, $C>(a, $pr).or_not();
                $k
            }
            Part::Iter(a) => {
                let $q = build::<$I, $C>(a, $pr).map(ast::items_of).into_iter();
                $k
            }
            Part::Ctx(..) => unsupported("a context-provider link in this position"),
        }
    };
}

fn build_chain<'a, I: InK<'a>, C: Cfg<'a, I>>(parts: &[Part], sink: &Sink, pr: Probes) -> BP<'a, I, C> {
    match parts {
        [p] => with_part!(I, C, p, pr, |a| apply_sink_chain::<I, C, _, _>(a, sink, pr)),
        [Part::Ctx(k, a, it)] => C::ctx_iter(*k, build::<I, C>(a, pr), build::<I, C>(it, pr), sink, pr),
        [p, Part::Ctx(k, a, it)] => with_part!(I, C, p, pr, |o| C::ctx_chain(o, false, *k, build::<I, C>(a, pr), build::<I, C>(it, pr), sink, pr)),
        [Part::Ctx(k, a, it), q] => with_part!(I, C, q, pr, |o| C::ctx_chain(o, true, *k, build::<I, C>(a, pr), build::<I, C>(it, pr), sink, pr)),
        [p, q] => with_part!(I, C, p, pr, |a| with_part!(I, C, q, pr, |c| apply_sink_chain::<I, C, _, _>(a.then(c), sink, pr))),
        _ => unsupported("iter_chain with more than two links"),
    }
}

fn str_val(s: String) -> Val {
    Val::L(s.chars().map(Val::T).collect())
}

fn build_rep<'a, I: InK<'a>, C: Cfg<'a, I>>(item: &G, bd: &Bounds, sink: &Sink, pr: Probes) -> BP<'a, I, C> {
    let it = build::<I, C>(item, pr);
    if *sink == Sink::Str {
        let it = it.map(|v| ast::char_of(&v));
        return with_bounds!(it.repeated(), bd, |q| q.collect::<String>().map(str_val).fin());
    }
    with_bounds!(it.repeated(), bd, |q| apply_sink::<I, C, _>(q, sink, pr))
}

#[allow(clippy::too_many_arguments)]
fn build_sep<'a, I: InK<'a>, C: Cfg<'a, I>>(item: &G, sep: &G, bd: &Bounds, lead: bool, trail: bool, sink: &Sink, pr: Probes) -> BP<'a, I, C> {
    macro_rules! flags {
        ($p:expr) => {{
            let mut p = $p;
            if lead {
                p = p.allow_leading();
            }
            if trail {
                p = p.allow_trailing();
            }
            p
        }};
    }
    let it = build::<I, C>(item, pr);
    let sp = build::<I, C>(sep, pr);
    if *sink == Sink::Str {
        let it = it.map(|v| ast::char_of(&v));
        return with_bounds!(nocfg flags!(it.separated_by(sp)), bd, |q| q.collect::<String>().map(str_val).fin());
    }
    with_bounds!(nocfg flags!(it.separated_by(sp)), bd, |q| apply_sink::<I, C, _>(q, sink, pr))
}

fn build0<'a, I: InK<'a>, C: Cfg<'a, I>>(g: &G, pr: Probes) -> BP<'a, I, C> {
    use G::*;
    let cerr = |span: I::Span, m: &str| <C::Err as ErrK<'a, I>>::custom_err(span, m.to_string());
    match g {
        Just(c) => just(tk::<I>(*c)).map(|t: I::T| Val::T(t.to_char())).fin(),
        JustSeq(a, c) => {
            let (a, c) = (*a, *c);
            just([tk::<I>(a), tk::<I>(c)]).map(move |_| Val::P(bx(Val::T(a)), bx(Val::T(c)))).fin()
        }
        Any => any().map(|t: I::T| Val::T(t.to_char())).fin(),
        AnyRef => I::any_ref::<C>(),
        SelectRef(s) => I::select_ref::<C>(s, pr.state),
        OneOf(s) => one_of(set::<I>(s)).map(|t: I::T| Val::T(t.to_char())).fin(),
        NoneOf(s) => none_of(set::<I>(s)).map(|t: I::T| Val::T(t.to_char())).fin(),
        Select(s) if s.ends_with('!') => {
            // the same selector written with the `select!` macro: overlapping arms (every pattern matches every token)
            // told apart by their guards only, so a token is accepted by the FIRST arm whose guard holds
            let s: &'static str = s;
            let st = pr.state;
            let mut ks = s.chars().filter(|c| *c != '!');
            let (k0, k1, k2) = (ks.next().map(tk::<I>), ks.next().map(tk::<I>), ks.next().map(tk::<I>));
            let mk = move |t: I::T, e: &mut chumsky::input::MapExtra<'a, '_, I, Ex<'a, I, C>>| {
                let v = Val::Tag(t.to_char());
                match (st, e.state().obs()) {
                    (true, Some((n, h))) => Val::Q(n, h, bx(v)),
                    _ => v,
                }
            };
            chumsky::select! {
                t = e if Some(t) == k0 => mk(t, e),
                t = e if Some(t) == k1 => mk(t, e),
                t = e if Some(t) == k2 => mk(t, e),
            }
            .fin()
        }
        Select(s) => {
            let s: &'static str = s;
            let st = pr.state;
            chumsky::primitive::select(move |t: I::T, e: &mut chumsky::input::MapExtra<'a, '_, I, Ex<'a, I, C>>| {
                let c = t.to_char();
                if s.contains(c) {
                    let v = Val::Tag(c);
                    Some(match (st, e.state().obs()) {
                        (true, Some((n, h))) => Val::Q(n, h, bx(v)),
                        _ => v,
                    })
                } else {
                    None
                }
            })
            .fin()
        }
        End => end().map(|_| Val::U).fin(),
        Empty => empty().map(|_| Val::U).fin(),
        Custom(k, ok) => {
            let (k, ok) = (*k, *ok);
            custom(move |inp| {
                let before = inp.cursor();
                for _ in 0..(k % 10) {
                    if k >= 10 {
                        // the same parser written with peek() + skip()
                        if inp.peek().is_none() {
                            return Err(<C::Err as ErrK<'a, I>>::custom_err(inp.span_since(&before), "CU".to_string()));
                        }
                        inp.skip();
                    } else if inp.next().is_none() {
                        return Err(<C::Err as ErrK<'a, I>>::custom_err(inp.span_since(&before), "CU".to_string()));
                    }
                }
                if ok {
                    Ok(Val::N(k as usize))
                } else {
                    Err(<C::Err as ErrK<'a, I>>::custom_err(inp.span_since(&before), "CU".to_string()))
                }
            })
            .fin()
        }
        EmptyChoice => choice(Vec::<BP<'a, I, C>>::new()).fin(),
        Map(a) => build::<I, C>(a, pr).map(|v| Val::M(bx(v))).fin(),
        To(a) => build::<I, C>(a, pr).to(Val::Z).fin(),
        Ignored(a) => build::<I, C>(a, pr).ignored().map(|_| Val::U).fin(),
        Filter(a) => build::<I, C>(a, pr).filter(ast::pred).fin(),
        TryMap(a) => build::<I, C>(a, pr).try_map(move |v, span| if ast::pred(&v) { Ok(v) } else { Err(cerr(span, "TM")) }).fin(),
        TryMapWith(a) => build::<I, C>(a, pr)
            .try_map_with(move |v, e| if ast::pred(&v) { Ok(v) } else { Err(cerr(e.span(), "TW")) })
            .fin(),
        StGuard(a) => build::<I, C>(a, pr)
            .try_map_with(move |v, e| match e.state().obs() {
                Some((c, _)) if c % 2 == 1 => Err(cerr(e.span(), "SG")),
                Some(_) => Ok(v),
                None => unsupported("state_guard without the tracking inspector"),
            })
            .fin(),
        OrNot(a) => build::<I, C>(a, pr).or_not().map(|o| Val::O(o.map(bx))).fin(),
        Not(a) => build::<I, C>(a, pr).not().map(|_| Val::U).fin(),
        Rewind(a) => build::<I, C>(a, pr).rewind().fin(),
        Boxed(a) => build::<I, C>(a, pr).boxed().boxed(),
        ToSlice(a) => I::to_slice::<C>(build::<I, C>(a, pr)),
        ToSpan(a) => build::<I, C>(a, pr).to_span().map(|s: I::Span| { let (a, b) = s.pair(); Val::Sp(a, b) }).fin(),
        Validate(a, id) => {
            let id = *id;
            build::<I, C>(a, pr)
                .validate(move |v, e, em| {
                    em.emit(<C::Err as ErrK<'a, I>>::custom_err(e.span(), format!("V{id}")));
                    v
                })
                .fin()
        }
        Labelled(a, c) => {
            if *c {
                build::<I, C>(a, pr).labelled("L").as_context().fin()
            } else {
                build::<I, C>(a, pr).labelled("L").fin()
            }
        }
        MapErr(a) => build::<I, C>(a, pr).map_err(|e: C::Err| e.tag()).fin(),
        Memo(a) => build::<I, C>(a, pr).memoized().fin(),
        Padded(a) => build::<I, C>(a, pr).padded().fin(),
        WithState(a) => C::with_state(build::<I, C>(a, pr)),
        Snd(a) => build::<I, C>(a, pr).map(ast::snd_of).fin(),
        Fst(a) => build::<I, C>(a, pr).map(ast::fst_of).fin(),
        Mid(a) => build::<I, C>(a, pr).map(ast::mid_of).fin(),
        MapUnit(a) => build::<I, C>(a, pr).map(|_| Val::U).fin(),
        MapZ(a) => build::<I, C>(a, pr).map(|_| Val::Z).fin(),
        SliceWith(a) => I::slice_with::<C>(build::<I, C>(a, pr)),
        SpanWith(a) => build::<I, C>(a, pr).map_with(|_, e| { let (a, b) = e.span().pair(); Val::Sp(a, b) }).fin(),
        TryMapSpan(a) => build::<I, C>(a, pr).try_map(|_, span: I::Span| { let (a, b) = span.pair(); Ok(Val::Sp(a, b)) }).fin(),
        Lazy(a) => build::<I, C>(a, pr).lazy().fin(),
        Rec(body, declare) => {
            let with_handle = |h: &BP<'a, I, C>| -> BP<'a, I, C> {
                REC.with(|r| r.borrow_mut().push(h as *const BP<'a, I, C> as *const ()));
                let p = catch_build::<I, C>(body, pr);
                REC.with(|r| r.borrow_mut().pop());
                match p {
                    Ok(p) => p,
                    Err(e) => std::panic::resume_unwind(e),
                }
            };
            if *declare {
                let mut d = Recursive::declare();
                let h: BP<'a, I, C> = d.clone().boxed();
                let p = with_handle(&h);
                d.define(p);
                d.fin()
            } else {
                recursive(|r| {
                    let h: BP<'a, I, C> = r.boxed();
                    with_handle(&h)
                })
                .fin()
            }
        }
        Let(def, body) => {
            let h: BP<'a, I, C> = build::<I, C>(def, pr);
            LET.with(|r| r.borrow_mut().push(&h as *const BP<'a, I, C> as *const ()));
            let p = catch_build::<I, C>(body, pr);
            LET.with(|r| r.borrow_mut().pop());
            match p {
                Ok(p) => p,
                Err(e) => std::panic::resume_unwind(e),
            }
        }
        Var => {
            let ptr = LET.with(|r| r.borrow().last().copied()).unwrap_or_else(|| unsupported("var outside let"));
            // SAFETY: pushed by the enclosing `Let` arm of this very instantiation of `build0` (same I, C), and
            // still on that arm's stack frame
            let h: &BP<'a, I, C> = unsafe { &*(ptr as *const BP<'a, I, C>) };
            h.clone()
        }
        RecRef(k) => {
            let ptr = REC.with(|r| {
                let r = r.borrow();
                r.get(r.len().wrapping_sub(1 + *k as usize)).copied()
            });
            let ptr = ptr.unwrap_or_else(|| unsupported("rec_ref outside rec"));
            // SAFETY: pushed by the enclosing `Rec` arm of this very instantiation of `build0` (same I, C),
            // and still on that arm's stack frame
            let h: &BP<'a, I, C> = unsafe { &*(ptr as *const BP<'a, I, C>) };
            h.clone()
        }
        Ext(a, own) => chumsky::extension::v1::Ext(ExtW::<I, C> { inner: build::<I, C>(a, pr), own_check: *own }).fin(),
        CustomNest(a) => {
            let inner = build::<I, C>(a, pr);
            custom(move |inp| inp.parse(&inner).map(|v| Val::M(bx(v)))).fin()
        }
        Rep(item, bd, sink) => build_rep::<I, C>(item, bd, sink, pr),
        SepBy(item, sep, bd, l, t, sink) => build_sep::<I, C>(item, sep, bd, *l, *t, sink, pr),
        Then(a, c) => build::<I, C>(a, pr).then(build::<I, C>(c, pr)).map(|(a, c)| Val::P(bx(a), bx(c))).fin(),
        IgnoreThen(a, c) => build::<I, C>(a, pr).ignore_then(build::<I, C>(c, pr)).fin(),
        ThenIgnore(a, c) => build::<I, C>(a, pr).then_ignore(build::<I, C>(c, pr)).fin(),
        Or(a, c) => build::<I, C>(a, pr).or(build::<I, C>(c, pr)).fin(),
        AndIs(a, c) => build::<I, C>(a, pr).and_is(build::<I, C>(c, pr)).fin(),
        PaddedBy(a, p) => build::<I, C>(a, pr).padded_by(build::<I, C>(p, pr)).fin(),
        DelimitedBy(a, o, c) => build::<I, C>(a, pr).delimited_by(build::<I, C>(o, pr), build::<I, C>(c, pr)).fin(),
        Choice(k, v) => {
            let mut ps: Vec<BP<'a, I, C>> = v.iter().map(|x| build::<I, C>(x, pr)).collect();
            match (k, ps.len()) {
                (Coll::Vec, _) => choice(ps).fin(),
                (Coll::Tuple, 1) => choice((ps.remove(0),)).fin(),
                (Coll::Tuple, 2) => {
                    let c = ps.remove(1);
                    choice((ps.remove(0), c)).fin()
                }
                (Coll::Tuple, 3) => {
                    let d = ps.remove(2);
                    let c = ps.remove(1);
                    choice((ps.remove(0), c, d)).fin()
                }
                (Coll::Array, 1) => choice([ps.remove(0)]).fin(),
                (Coll::Array, 2) => {
                    let c = ps.remove(1);
                    choice([ps.remove(0), c]).fin()
                }
                (Coll::Array, 3) => {
                    let d = ps.remove(2);
                    let c = ps.remove(1);
                    choice([ps.remove(0), c, d]).fin()
                }
                _ => unsupported("choice arity"),
            }
        }
        Group(k, v) => {
            let mut ps: Vec<BP<'a, I, C>> = v.iter().map(|x| build::<I, C>(x, pr)).collect();
            match (k, ps.len()) {
                (Coll::Tuple, 2) => {
                    let c = ps.remove(1);
                    group((ps.remove(0), c)).map(|(a, c)| Val::L(vec![a, c])).fin()
                }
                (Coll::Tuple, 3) => {
                    let d = ps.remove(2);
                    let c = ps.remove(1);
                    group((ps.remove(0), c, d)).map(|(a, c, d)| Val::L(vec![a, c, d])).fin()
                }
                (Coll::Array, 2) => {
                    let c = ps.remove(1);
                    group([ps.remove(0), c]).map(|a: [Val; 2]| Val::L(a.into())).fin()
                }
                (Coll::Array, 3) => {
                    let d = ps.remove(2);
                    let c = ps.remove(1);
                    group([ps.remove(0), c, d]).map(|a: [Val; 3]| Val::L(a.into())).fin()
                }
                _ => unsupported("group arity"),
            }
        }
        Recover(a, f) => build::<I, C>(a, pr).recover_with(via_parser(build::<I, C>(f, pr).map(|v| Val::M(bx(v))))).fin(),
        SkipUntil(a, s, u) => build::<I, C>(a, pr)
            .recover_with(skip_until(build::<I, C>(s, pr).ignored(), build::<I, C>(u, pr).ignored(), || Val::F))
            .fin(),
        Retry(a, s, u) => build::<I, C>(a, pr)
            .recover_with(skip_then_retry_until(build::<I, C>(s, pr).ignored(), build::<I, C>(u, pr).ignored()))
            .fin(),
        NestedDelims(a) => build::<I, C>(a, pr)
            .recover_with(via_parser(
                nested_delimiters(tk::<I>('('), tk::<I>(')'), [(tk::<I>('['), tk::<I>(']')), (tk::<I>('{'), tk::<I>('}'))], |s: I::Span| { let (a, b) = s.pair(); Val::Sp(a, b) })
                    .map(|v| Val::M(bx(v))),
            ))
            .fin(),
        WithCtx(c, a) => C::with_ctx(*c, build::<I, C>(a, pr)),
        ThenWithCtx(a, c) => C::then_with_ctx(build::<I, C>(a, pr), build::<I, C>(c, pr)),
        IgnoreWithCtx(a, c) => C::ignore_with_ctx(build::<I, C>(a, pr), build::<I, C>(c, pr)),
        MapCtx(a) => C::map_ctx(build::<I, C>(a, pr)),
        JustCtx => C::just_ctx(),
        RepCtx(a) => C::rep_ctx(build::<I, C>(a, pr)),
        RepCtxMax(a) => C::rep_ctx_max(build::<I, C>(a, pr)),
        TryRepCtx(a) => C::try_rep_ctx(build::<I, C>(a, pr)),
        RepCtxPre(a, st, kind) => C::rep_ctx_pre(build::<I, C>(a, pr), *st, *kind),
        CtxBare(kind, a) => C::ctx_bare(build::<I, C>(a, pr), *kind),
        IterChain(parts, sink) => build_chain::<I, C>(parts, sink, pr),
        CtxIter(kind, a, item, sink) => C::ctx_iter(*kind, build::<I, C>(a, pr), build::<I, C>(item, pr), sink, pr),
        IntoIter(a, sink) => {
            if matches!(sink, Sink::Str) {
                return unsupported("Sink::Str on into_iter");
            }
            apply_sink::<I, C, _>(build::<I, C>(a, pr).map(ast::items_of).into_iter(), sink, pr)
        }
    }
}
