//! cvm — the reference model side of the chumsky verification framework (no chumsky dependency).
pub mod ast;
pub mod codegen;
pub mod enumerate;
pub mod sem;
