#!/usr/bin/env python3
"""Regenerate the seeded-changes table in DESIGN.md from seeded/*/{meta.json,result.json,NOTES.md}
and write each seed's detection result back into its meta.json."""
import json, os, glob, re
ROOT = os.path.dirname(os.path.dirname(os.path.abspath(__file__)))
rows = []
for d in sorted(glob.glob(os.path.join(ROOT, "seeded", "*"))):
    name = os.path.basename(d)
    try:
        meta = json.load(open(os.path.join(d, "meta.json")))
    except Exception:
        continue
    res = {}
    if os.path.exists(os.path.join(d, "result.json")):
        try:
            res = json.load(open(os.path.join(d, "result.json")))
        except Exception:
            res = {}
    caught = sorted(k for k, v in res.items() if isinstance(v, dict) and v.get("exit") == 1)
    missed = sorted(k for k, v in res.items() if isinstance(v, dict) and v.get("exit") == 0)
    meta["detected_by"] = caught
    meta["ran_without_detection"] = missed
    what = meta.get("summary") or ""
    if not what:
        notes = os.path.join(d, "NOTES.md")
        if os.path.exists(notes):
            txt = open(notes).read()
            m = re.search(r"(?im)^(?:#+\s*)?(?:what i broke|mechanism|the change|change)[^\n]*\n+(.+?)(?:\n\n|\n#)", txt, re.S)
            what = (m.group(1) if m else txt.strip().split("\n\n")[0]).replace("\n", " ").strip()
    what = re.sub(r"\s+", " ", what)[:230]
    json.dump(meta, open(os.path.join(d, "meta.json"), "w"), indent=1)
    note = meta.get("note", "")
    rows.append(f"| {name} | {meta.get('property')} | {what} | {', '.join(caught) if caught else '—'} | {note} |")
table = "| seed | property | change (from the sub-agent's notes) | caught by (quick tier) | note |\n|---|---|---|---|---|\n" + "\n".join(rows)
p = os.path.join(ROOT, "DESIGN.md")
s = open(p).read()
a = s.index("<!-- SEEDS-TABLE-BEGIN -->") + len("<!-- SEEDS-TABLE-BEGIN -->")
b = s.index("<!-- SEEDS-TABLE-END -->")
s = s[:a] + "\n" + table + "\n" + s[b:]
open(p, "w").write(s)
print(f"{len(rows)} seeds")
