//! E2 — explicit-state exploration of the input-cursor machine.
//!
//! Model state: ⟨pos, saved checkpoints (<= 2, each = (pos, emitted-at-save)), emitted⟩ over a fixed
//! token vector.  The inspector state and every span/slice are functions of these.  BFS from the
//! initial state over ALL reachable model states (the space is finite), deduplicated on that tuple;
//! for every transition `s --op--> s'` the shortest operation path to `s` plus `op` is executed on
//! the real `InputRef` inside one `custom(|inp| ..)` parser and every observation of every step is
//! compared with the model — every edge of the model's state graph is replayed on the implementation.

use chumsky::error::Rich;
use chumsky::extra::Full;
use chumsky::input::Input as _;
use chumsky::prelude::*;
use cvh::e1;
use cvh::interp::Track;
use cvh::unit::{ShardCtx, UnitResult};
use serde_json::{json, Value};
use std::collections::{HashMap, VecDeque};
use std::panic::{catch_unwind, AssertUnwindSafe};

#[derive(Clone, Copy, Debug, PartialEq, Eq, Hash)]
pub enum Op {
    Next,
    NextMaybe,
    Peek,
    PeekMaybe,
    Skip,
    Save,
    Rewind(u8),
    SpanSince(u8),
    SliceSince(u8),
    /// `inp.span_from(cp_i..)`: from a checkpoint to the end of the input (inputs of known size only)
    SpanFrom(u8),
    /// `inp.slice(cp0..cp1)`
    SliceBetween,
    /// `inp.parse(just('a').repeated())`
    ParseAStar,
    /// `inp.check(just('a').or_not())`
    CheckA,
    /// `inp.parse(empty().validate(|_, e, em| em.emit(..)))`
    Emit,
}

impl Op {
    pub fn name(self) -> String {
        match self {
            Op::Next => "next".into(),
            Op::NextMaybe => "next_maybe".into(),
            Op::Peek => "peek".into(),
            Op::PeekMaybe => "peek_maybe".into(),
            Op::Skip => "skip".into(),
            Op::Save => "save".into(),
            Op::Rewind(i) => format!("rewind{i}"),
            Op::SpanSince(i) => format!("span_since{i}"),
            Op::SpanFrom(i) => format!("span_from{i}"),
            Op::SliceSince(i) => format!("slice_since{i}"),
            Op::SliceBetween => "slice01".into(),
            Op::ParseAStar => "parse_a_star".into(),
            Op::CheckA => "check_a".into(),
            Op::Emit => "emit".into(),
        }
    }
    pub fn parse(s: &str) -> Option<Op> {
        ALL_OPS.iter().copied().find(|o| o.name() == s)
    }
}
pub const ALL_OPS: [Op; 18] = [
    Op::Next,
    Op::NextMaybe,
    Op::Peek,
    Op::PeekMaybe,
    Op::Skip,
    Op::Save,
    Op::Rewind(0),
    Op::Rewind(1),
    Op::SpanSince(0),
    Op::SpanSince(1),
    Op::SliceSince(0),
    Op::SliceSince(1),
    Op::SliceBetween,
    Op::ParseAStar,
    Op::CheckA,
    Op::Emit,
    Op::SpanFrom(0),
    Op::SpanFrom(1),
];

#[derive(Clone, Debug, PartialEq, Eq, Hash)]
pub struct MState {
    pub pos: usize,
    pub saved: Vec<(usize, usize)>,
    pub emitted: usize,
}

#[derive(Clone, Debug, PartialEq, Eq)]
pub enum Obs {
    Unit,
    Tok(Option<char>),
    Span(usize, usize),
    /// span from a position to the end of the input
    SpanFrom(usize, usize),
    /// (start token index, text)
    Slice(usize, String),
}
#[derive(Clone, Debug, PartialEq, Eq)]
pub struct StepObs {
    pub o: Obs,
    /// the empty span at the current position after the step (a position read-out)
    pub here: (usize, usize),
    /// inspector snapshot after the step
    pub st: (u32, u64),
}

pub const MAX_SAVED: usize = 2;
pub const MAX_EMITTED: usize = 2;

/// model transition; None = op not enabled in this state
pub fn step(t: &[char], s: &MState, op: Op, slices: bool, exact: bool) -> Option<(MState, Obs)> {
    let mut n = s.clone();
    let o = match op {
        Op::Next | Op::NextMaybe => {
            let c = t.get(s.pos).copied();
            if c.is_some() {
                n.pos += 1;
            }
            Obs::Tok(c)
        }
        Op::Peek | Op::PeekMaybe => Obs::Tok(t.get(s.pos).copied()),
        Op::Skip => {
            if s.pos < t.len() {
                n.pos += 1;
            }
            Obs::Unit
        }
        Op::Save => {
            if s.saved.len() >= MAX_SAVED {
                return None;
            }
            n.saved.push((s.pos, s.emitted));
            Obs::Unit
        }
        Op::Rewind(i) => {
            let (p, e) = *s.saved.get(i as usize)?;
            n.pos = p;
            // rewinding truncates the emitted errors to the checkpoint's count (never extends it)
            n.emitted = s.emitted.min(e);
            Obs::Unit
        }
        Op::SpanSince(i) => {
            let (p, _) = *s.saved.get(i as usize)?;
            if p > s.pos {
                return None;
            }
            Obs::Span(p, s.pos)
        }
        Op::SpanFrom(i) => {
            if !exact {
                return None;
            }
            // the checkpoint may lie before or after the current position: the answer does not depend on it
            let (p, _) = *s.saved.get(i as usize)?;
            Obs::SpanFrom(p, t.len())
        }
        Op::SliceSince(i) => {
            if !slices {
                return None;
            }
            let (p, _) = *s.saved.get(i as usize)?;
            if p > s.pos {
                return None;
            }
            Obs::Slice(p, t[p..s.pos].iter().collect())
        }
        Op::SliceBetween => {
            if !slices || s.saved.len() < 2 || s.saved[0].0 > s.saved[1].0 {
                return None;
            }
            let (a, b) = (s.saved[0].0, s.saved[1].0);
            Obs::Slice(a, t[a..b].iter().collect())
        }
        Op::ParseAStar => {
            while t.get(n.pos) == Some(&'a') {
                n.pos += 1;
            }
            Obs::Unit
        }
        Op::CheckA => {
            if t.get(n.pos) == Some(&'a') {
                n.pos += 1;
            }
            Obs::Unit
        }
        Op::Emit => {
            if s.emitted >= MAX_EMITTED {
                return None;
            }
            n.emitted += 1;
            Obs::Unit
        }
    };
    Some((n, o))
}

pub struct Run {
    pub steps: Vec<StepObs>,
    pub errors: usize,
    pub rest: usize,
    pub final_state: (u32, u64),
}

type Ex<'a, T, S = SimpleSpan> = Full<Rich<'a, T, S>, Track, ()>;

macro_rules! slice_arm {
    (yes, $e:expr) => {
        $e
    };
    (no, $e:expr) => {
        unreachable!("slice operation on an input kind without slices")
    };
}

macro_rules! driver {
    ($name:ident, $I:ty, $T:ty, $sl:tt, $ex:tt, $slice_obs:expr) => {
        driver!($name, $I, $T, SimpleSpan, $sl, $ex, $slice_obs);
    };
    ($name:ident, $I:ty, $T:ty, $S:ty, $sl:tt, $ex:tt, $slice_obs:expr) => {
        #[allow(clippy::redundant_closure_call)]
        pub fn $name<'a>(mk: &dyn Fn() -> $I, script: &[Op], tok: fn(char) -> $T, untok: fn($T) -> char) -> Result<Run, String> {
            let script: Vec<Op> = script.to_vec();
            let p = custom::<_, $I, Vec<(Obs, (usize, usize), (u32, u64))>, Ex<'a, $T, $S>>(move |inp| {
                let mut cps = vec![];
                let mut out = vec![];
                for op in &script {
                    let o = match *op {
                        Op::Next => Obs::Tok(inp.next().map(untok)),
                        Op::NextMaybe => Obs::Tok(inp.next_maybe().map(|t| untok((*t).clone()))),
                        Op::Peek => Obs::Tok(inp.peek().map(untok)),
                        Op::PeekMaybe => Obs::Tok(inp.peek_maybe().map(|t| untok((*t).clone()))),
                        Op::Skip => {
                            inp.skip();
                            Obs::Unit
                        }
                        Op::Save => {
                            cps.push(inp.save());
                            Obs::Unit
                        }
                        Op::Rewind(i) => {
                            let c = cps[i as usize].clone();
                            inp.rewind(c);
                            Obs::Unit
                        }
                        Op::SpanSince(i) => {
                            let s: $S = inp.span_since(cps[i as usize].cursor());
                            let (a, b) = cvh::interp::SpK::pair(&s);
                            Obs::Span(a, b)
                        }
                        Op::SpanFrom(i) => slice_arm!($ex, {
                            let s: $S = inp.span_from(cps[i as usize].cursor()..);
                            let (a, b) = cvh::interp::SpK::pair(&s);
                            Obs::SpanFrom(a, b)
                        }),
                        Op::SliceSince(i) => slice_arm!($sl, {
                            let sl = inp.slice_since(cps[i as usize].cursor()..);
                            ($slice_obs)(sl)
                        }),
                        Op::SliceBetween => slice_arm!($sl, {
                            let sl = inp.slice(cps[0].cursor()..cps[1].cursor());
                            ($slice_obs)(sl)
                        }),
                        Op::ParseAStar => {
                            let _ = inp.parse(just(tok('a')).repeated());
                            Obs::Unit
                        }
                        Op::CheckA => {
                            let _ = inp.check(just(tok('a')).or_not());
                            Obs::Unit
                        }
                        Op::Emit => {
                            let _ = inp.parse(empty().validate(|_, e, em| em.emit(Rich::custom(e.span(), "E"))));
                            Obs::Unit
                        }
                    };
                    let c = inp.cursor();
                    let h: $S = inp.span_since(&c);
                    let h = {
                        let (a, b) = cvh::interp::SpK::pair(&h);
                        (a, b)
                    };
                    let st = {
                        let s = inp.state();
                        (s.count, s.hash)
                    };
                    out.push((o, h, st));
                }
                Ok(out)
            });
            let full = p.then(any().repeated().count());
            let mut st = Track::default();
            let (o, errs) = full.parse_with_state(mk(), &mut st).into_output_errors();
            match o {
                None => Err(format!("the scripted parser failed: {:?}", errs.iter().map(|e| format!("{e:?}")).collect::<Vec<_>>())),
                Some((steps, rest)) => Ok(Run { steps: steps.into_iter().map(|(o, here, st)| StepObs { o, here, st }).collect(), errors: errs.len(), rest, final_state: (st.count, st.hash) }),
            }
        }
    };
}

fn str_slice(s: &str) -> Obs {
    Obs::Slice(e1::buf_off(s.as_ptr() as usize, s.len()), s.chars().map(cvh::interp::TokK::to_char).collect())
}
fn chars_slice(s: &[char]) -> Obs {
    let o = e1::buf_off(s.as_ptr() as usize, s.len() * 4);
    Obs::Slice(if o == usize::MAX { o } else { o / 4 }, s.iter().collect())
}
fn u8_slice(s: &[u8]) -> Obs {
    Obs::Slice(e1::buf_off(s.as_ptr() as usize, s.len()), s.iter().map(|b| *b as char).collect())
}
/// offset of a slice whose address says nothing: `Bytes::slice` of an empty range is a fresh empty `Bytes`
/// (documented in the bytes crate), so only its emptiness is observable
const ANY_OFFSET: usize = usize::MAX - 1;
fn bytes_slice(s: bytes::Bytes) -> Obs {
    if s.is_empty() {
        Obs::Slice(ANY_OFFSET, String::new())
    } else {
        u8_slice(&s)
    }
}
fn rebase(s: SimpleSpan) -> core::ops::Range<usize> {
    s.start + 100..s.end + 100
}
fn no_slice(_: ()) -> Obs {
    Obs::Unit
}

driver!(drive_str, &'a str, char, yes, yes, str_slice);
driver!(drive_chars, &'a [char], char, yes, yes, chars_slice);
driver!(drive_u8, &'a [u8], u8, yes, yes, u8_slice);
driver!(drive_stream, e1::StreamIn, char, no, yes, no_slice);
driver!(drive_mapped, e1::MappedIn<'a>, char, no, yes, no_slice);
driver!(drive_io, e1::IoIn<'a>, u8, no, no, no_slice);
driver!(drive_boxed_stream, e1::BoxedStreamIn<'a>, char, no, no, no_slice);
driver!(drive_bytes, bytes::Bytes, u8, yes, yes, bytes_slice);
driver!(drive_array, &'a [char; e1::ARR_N], char, yes, yes, chars_slice);
driver!(drive_with_ctx, e1::WithCtxIn<'a>, char, SimpleSpan<usize, u8>, yes, yes, str_slice);
driver!(drive_map_span, e1::MapSpanIn<'a>, char, core::ops::Range<usize>, yes, yes, str_slice);

#[derive(Clone, Copy, Debug, PartialEq, Eq)]
pub enum CK {
    Str,
    StrMb,
    Chars,
    U8,
    Stream,
    MappedGapped,
    Io,
    BoxedStream,
    Bytes,
    Array,
    WithCtx,
    WithCtxMb,
    MapSpan,
}
impl CK {
    pub const ALL: [CK; 13] = [CK::Str, CK::StrMb, CK::Chars, CK::U8, CK::Stream, CK::MappedGapped, CK::Io, CK::BoxedStream, CK::Bytes, CK::Array, CK::WithCtx, CK::WithCtxMb, CK::MapSpan];
    pub fn name(self) -> &'static str {
        match self {
            CK::Str => "&str",
            CK::StrMb => "&str(multibyte)",
            CK::Chars => "&[char]",
            CK::U8 => "&[u8]",
            CK::Stream => "Stream",
            CK::MappedGapped => "Input::map(gapped)",
            CK::Io => "IoInput",
            CK::BoxedStream => "BoxedStream",
            CK::Bytes => "Bytes",
            CK::Array => "&[char; 3]",
            CK::WithCtx => "with_context",
            CK::WithCtxMb => "with_context(multibyte)",
            CK::MapSpan => "map_span",
        }
    }
    pub fn from_name(s: &str) -> Option<CK> {
        CK::ALL.into_iter().find(|k| k.name() == s)
    }
    /// the input knows its size (`ExactSizeInput`): `span_from` is available
    pub fn exact(self) -> bool {
        !matches!(self, CK::Io | CK::BoxedStream)
    }
    pub fn slices(self) -> bool {
        matches!(self, CK::Str | CK::StrMb | CK::Chars | CK::U8 | CK::Bytes | CK::Array | CK::WithCtx | CK::WithCtxMb | CK::MapSpan)
    }
    /// only inputs of exactly this length exist for the kind
    pub fn fixed_len(self) -> Option<usize> {
        if self == CK::Array {
            Some(e1::ARR_N)
        } else {
            None
        }
    }
}

fn id(c: char) -> char {
    c
}
fn to_u8(c: char) -> u8 {
    c as u8
}
fn from_u8(b: u8) -> char {
    b as char
}

/// run a script on the real input of the given kind and normalise spans/offsets to token indices
pub fn run_real(kind: CK, toks: &[char], script: &[Op]) -> Result<Run, String> {
    use cvh::interp::{render, MB};
    let n = toks.len();
    let r = catch_unwind(AssertUnwindSafe(|| match kind {
        CK::Str | CK::StrMb => {
            let mb = kind == CK::StrMb;
            MB.with(|m| m.set(mb));
            let buf: String = toks.iter().map(|c| if mb { render(*c) } else { *c }).collect();
            e1::BUF_SET(buf.as_ptr() as usize, buf.len());
            let table = e1::byte_table(&buf);
            let tokf: fn(char) -> char = <char as cvh::interp::TokK>::from_char;
            let untok: fn(char) -> char = <char as cvh::interp::TokK>::to_char;
            let r = drive_str(&|| buf.as_str(), script, tokf, untok);
            MB.with(|m| m.set(false));
            r.map(|run| normalise(run, &|s| e1::from_table(&table, s), &|o| e1::from_table(&table, (o, o)).map(|x| x.0)))
        }
        CK::Chars => {
            let buf: Vec<char> = toks.to_vec();
            e1::BUF_SET(buf.as_ptr() as usize, buf.len() * 4);
            drive_chars(&|| &buf[..], script, id, id).map(|run| normalise(run, &|s| e1::index_norm(n, s), &|o| Some(o)))
        }
        CK::U8 => {
            let buf: Vec<u8> = toks.iter().map(|c| *c as u8).collect();
            e1::BUF_SET(buf.as_ptr() as usize, buf.len());
            drive_u8(&|| &buf[..], script, to_u8, from_u8).map(|run| normalise(run, &|s| e1::index_norm(n, s), &|o| Some(o)))
        }
        CK::Stream => {
            let buf: Vec<char> = toks.to_vec();
            drive_stream(&|| chumsky::input::Stream::from_iter(e1::counting(buf.clone())), script, id, id).map(|run| normalise(run, &|s| e1::index_norm(n, s), &|o| Some(o)))
        }
        CK::MappedGapped => {
            let buf: Vec<(char, SimpleSpan)> = toks.iter().enumerate().map(|(i, c)| (*c, (3 * i + 1..3 * i + 2).into())).collect();
            let eoi: SimpleSpan = (3 * n + 1..3 * n + 1).into();
            drive_mapped(&|| buf.as_slice().map(eoi, e1::map_tok_fn()), script, id, id).map(|run| normalise(run, &|s| e1::gapped_norm(n, s), &|o| Some(o)))
        }
        CK::BoxedStream => {
            let buf: Vec<char> = toks.to_vec();
            // an iterator without a size hint, boxed
            drive_boxed_stream(&|| chumsky::input::Stream::from_iter(buf.clone().into_iter().filter(|_| true)).boxed(), script, id, id).map(|run| normalise(run, &|s| e1::index_norm(n, s), &|o| Some(o)))
        }
        CK::Bytes => {
            let buf = bytes::Bytes::from(toks.iter().map(|c| *c as u8).collect::<Vec<u8>>());
            e1::BUF_SET(buf.as_ptr() as usize, buf.len());
            drive_bytes(&|| buf.clone(), script, to_u8, from_u8).map(|run| normalise(run, &|s| e1::index_norm(n, s), &|o| Some(o)))
        }
        CK::Array => {
            let buf: [char; e1::ARR_N] = [toks[0], toks[1], toks[2]];
            e1::BUF_SET(buf.as_ptr() as usize, buf.len() * 4);
            drive_array(&|| &buf, script, id, id).map(|run| normalise(run, &|s| e1::index_norm(n, s), &|o| Some(o)))
        }
        CK::WithCtx | CK::WithCtxMb => {
            let mb = kind == CK::WithCtxMb;
            MB.with(|m| m.set(mb));
            let buf: String = toks.iter().map(|c| if mb { render(*c) } else { *c }).collect();
            e1::BUF_SET(buf.as_ptr() as usize, buf.len());
            let table = e1::byte_table(&buf);
            let tokf: fn(char) -> char = <char as cvh::interp::TokK>::from_char;
            let untok: fn(char) -> char = <char as cvh::interp::TokK>::to_char;
            let r = drive_with_ctx(&|| buf.as_str().with_context(7u8), script, tokf, untok);
            MB.with(|m| m.set(false));
            r.map(|run| normalise(run, &|s| e1::from_table(&table, s), &|o| e1::from_table(&table, (o, o)).map(|x| x.0)))
        }
        CK::MapSpan => {
            let buf: String = toks.iter().collect();
            e1::BUF_SET(buf.as_ptr() as usize, buf.len());
            // spans are re-based by +100, slice offsets are plain buffer offsets
            drive_map_span(&|| buf.as_str().map_span(rebase as e1::SpanFn), script, id, id).map(|run| normalise(run, &|(a, b)| if a >= 100 && b >= 100 { e1::index_norm(n, (a - 100, b - 100)) } else { None }, &|o| Some(o)))
        }
        CK::Io => {
            let buf: Vec<u8> = toks.iter().map(|c| *c as u8).collect();
            drive_io(&|| chumsky::input::IoInput::new(std::io::Cursor::new(&buf[..])), script, to_u8, from_u8).map(|run| normalise(run, &|s| e1::index_norm(n, s), &|o| Some(o)))
        }
    }));
    match r {
        Ok(x) => x,
        Err(e) => Err(format!("panic: {}", e1::panic_msg(e))),
    }
}

fn normalise(mut run: Run, span: &dyn Fn((usize, usize)) -> Option<(usize, usize)>, off: &dyn Fn(usize) -> Option<usize>) -> Run {
    const BAD: usize = usize::MAX;
    for s in run.steps.iter_mut() {
        s.here = span(s.here).unwrap_or((BAD, BAD));
        match &mut s.o {
            Obs::Span(a, b) => {
                let (x, y) = span((*a, *b)).unwrap_or((BAD, BAD));
                *a = x;
                *b = y;
            }
            Obs::SpanFrom(a, b) => {
                // both ends are positions: the start of the token at the checkpoint, the end of the input
                *a = span((*a, *a)).map_or(BAD, |x| x.0);
                *b = span((*b, *b)).map_or(BAD, |x| x.0);
            }
            Obs::Slice(o, _) if *o == ANY_OFFSET => {}
            Obs::Slice(o, _) => {
                *o = if *o == BAD { BAD } else { off(*o).unwrap_or(BAD) };
            }
            _ => {}
        }
    }
    run
}

/// BFS over the model; returns (states, edges) where each edge = (parent state index, op)
pub fn explore(t: &[char], slices: bool, exact: bool) -> (Vec<MState>, Vec<(usize, Op, usize)>, Vec<Option<(usize, Op)>>) {
    let init = MState { pos: 0, saved: vec![], emitted: 0 };
    let mut idx: HashMap<MState, usize> = HashMap::new();
    let mut states = vec![init.clone()];
    let mut parent: Vec<Option<(usize, Op)>> = vec![None];
    idx.insert(init, 0);
    let mut edges = vec![];
    let mut q = VecDeque::from([0usize]);
    while let Some(si) = q.pop_front() {
        let s = states[si].clone();
        for op in ALL_OPS.iter().copied() {
            if let Some((n, _)) = step(t, &s, op, slices, exact) {
                let ni = *idx.entry(n.clone()).or_insert_with(|| {
                    states.push(n.clone());
                    parent.push(Some((si, op)));
                    q.push_back(states.len() - 1);
                    states.len() - 1
                });
                edges.push((si, op, ni));
            }
        }
    }
    (states, edges, parent)
}

fn path_to(parent: &[Option<(usize, Op)>], mut si: usize) -> Vec<Op> {
    let mut p = vec![];
    while let Some((pi, op)) = parent[si] {
        p.push(op);
        si = pi;
    }
    p.reverse();
    p
}

/// model prediction for a whole script
pub fn predict(t: &[char], script: &[Op], slices: bool, exact: bool) -> Option<(Vec<StepObs>, MState)> {
    let mut s = MState { pos: 0, saved: vec![], emitted: 0 };
    let mut out = vec![];
    for op in script {
        let (n, o) = step(t, &s, *op, slices, exact)?;
        let (c, h) = cvm::ast::track_fold(&t[..n.pos]);
        out.push(StepObs { o, here: (n.pos, n.pos), st: (c, h) });
        s = n;
    }
    Some((out, s))
}

pub fn check_script(kind: CK, t: &[char], script: &[Op]) -> Result<(), String> {
    let (want, fin) = predict(t, script, kind.slices(), kind.exact()).ok_or("script not enabled in the model")?;
    let run = run_real(kind, t, script)?;
    let mut want = want;
    for (w, g) in want.iter_mut().zip(run.steps.iter()) {
        if let (Obs::Slice(wo, wt), Obs::Slice(ANY_OFFSET, _)) = (&mut w.o, &g.o) {
            if wt.is_empty() {
                *wo = ANY_OFFSET;
            }
        }
    }
    if run.steps != want {
        let k = run.steps.iter().zip(want.iter()).position(|(a, b)| a != b).unwrap_or(0);
        return Err(format!("step {k} ({}): observed {:?}, model {:?}", script[k].name(), run.steps.get(k), want.get(k)));
    }
    if run.errors != fin.emitted {
        return Err(format!("{} errors reported, the model has {} emitted and not rewound", run.errors, fin.emitted));
    }
    if run.rest != t.len() - fin.pos {
        return Err(format!("{} tokens left after the script, model {}", run.rest, t.len() - fin.pos));
    }
    if run.final_state != cvm::ast::track_fold(t) {
        return Err("final inspector state is not the fold over the whole input".into());
    }
    Ok(())
}

pub fn run(unit: &str, len: usize, cx: &ShardCtx) -> UnitResult {
    let mut r = UnitResult { name: unit.to_string(), exhaustive: true, ..Default::default() };
    let ins = cvm::enumerate::inputs(&['a', 'b', 'c'], len);
    let mut case = 0usize;
    let mut maxpath = 0usize;
    for kind in CK::ALL {
        for t in &ins {
            if kind.fixed_len().map_or(false, |l| l != t.len()) {
                continue;
            }
            let me = case % cx.nshards == cx.shard;
            case += 1;
            if !me || cx.skip.contains(&(case - 1)) {
                continue;
            }
            (cx.progress)(case - 1);
            let (states, edges, parent) = explore(t, kind.slices(), kind.exact());
            r.states += states.len() as u64;
            r.transitions += edges.len() as u64;
            *r.counters.entry(format!("states[{}]", kind.name())).or_default() += states.len() as u64;
            for (si, op, _ni) in &edges {
                let mut script = path_to(&parent, *si);
                script.push(*op);
                maxpath = maxpath.max(script.len());
                r.cases += 1;
                r.validated += 1;
                if let Err(why) = check_script(kind, t, &script) {
                    r.mismatch_count += 1;
                    if r.mismatches.len() < 20 {
                        r.mismatches.push(json!({"engine": "cursor", "unit": unit, "kind": kind.name(), "input": t.iter().collect::<String>(),
                            "ops": script.iter().map(|o| o.name()).collect::<Vec<_>>().join(" "), "categories": ["cursor_machine"], "detail": why, "explained_by": []}));
                    }
                }
                if r.samples.len() < 4 && script.len() >= 5 && matches!(op, Op::SpanSince(_) | Op::SliceSince(_)) {
                    r.samples.push(format!("[{}] {:?}: {}", kind.name(), t.iter().collect::<String>(), script.iter().map(|o| o.name()).collect::<Vec<_>>().join(" ")));
                }
            }
        }
    }
    r.counters.insert("longest_replayed_path".into(), maxpath as u64);
    r.distinct_outcomes = r.states;
    r.desc = format!("cursor machine: BFS over all reachable model states <pos, <= {MAX_SAVED} checkpoints, <= {MAX_EMITTED} emitted> for every input over \"abc\" of length <= {len} on {} input kinds; operations next/next_maybe/peek/peek_maybe/skip/save/rewind(i)/span_since(i)/span_from(i)/slice_since(i)/slice(cp0..cp1)/parse(just(a)*)/check(just(a)?)/emit; every edge replayed on the real InputRef (shortest path + op), every step's token, span, slice, position read-out and inspector snapshot compared", CK::ALL.len());
    r
}

pub fn replay(v: &Value) -> Result<Option<String>, String> {
    let kind = CK::from_name(v["kind"].as_str().unwrap_or("")).ok_or("unknown kind")?;
    let t: Vec<char> = v["input"].as_str().ok_or("no input")?.chars().collect();
    let script: Vec<Op> = v["ops"].as_str().ok_or("no ops")?.split_whitespace().map(|s| Op::parse(s).ok_or_else(|| format!("bad op {s}"))).collect::<Result<_, _>>()?;
    Ok(check_script(kind, &t, &script).err())
}
