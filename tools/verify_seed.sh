#!/bin/bash
# verify_seed.sh <PROP> <seed-name> <worktree> <outdir>
# Confirms a sub-agent's seeded change in its scratch worktree: (1) pinned lib tests pass with the
# change, (2) the demonstration fails with it, (3) passes without it.  Then archives it under
# /verif/seeded/<seed-name>/ and removes the worktree (with its build output).
set -u
PROP=$1; NAME=$2; WT=$3; OUT=$4
FEAT="memoization,pratt,extension,unstable,either,regex,bytes"
export CARGO_NET_OFFLINE=true
cd "$WT" || exit 2
git checkout -q -- . ; git apply "$OUT/patch.diff" || { echo "patch does not apply"; exit 2; }
mkdir -p tests; cp "$OUT/demo.rs" tests/demo_seed.rs
LIB=$(cargo test --offline --lib 2>&1 | grep -E "^test result" | head -1)
DEMO_WITH=$(cargo test --offline --test demo_seed --features $FEAT 2>&1 | grep -E "^test result" | head -3 | tr '\n' ' ')
git apply -R "$OUT/patch.diff"
DEMO_WITHOUT=$(cargo test --offline --test demo_seed --features $FEAT 2>&1 | grep -E "^test result" | head -3 | tr '\n' ' ')
echo "lib(with): $LIB"; echo "demo(with): $DEMO_WITH"; echo "demo(without): $DEMO_WITHOUT"
ok=1
echo "$LIB" | grep -q "40 passed; 0 failed" || ok=0
echo "$DEMO_WITH" | grep -q "FAILED" || ok=0
echo "$DEMO_WITHOUT" | grep -q "test result: ok" || ok=0
if [ $ok = 1 ]; then
  D=/verif/seeded/$NAME; mkdir -p $D; cp "$OUT/patch.diff" $D/patch.diff; cp "$OUT/demo.rs" $D/demo.rs; cp "$OUT/NOTES.md" $D/NOTES.md 2>/dev/null
  python3 - "$PROP" "$NAME" "$LIB" "$DEMO_WITH" "$DEMO_WITHOUT" <<'PY'
import json,sys
prop,name,lib,dw,dwo=sys.argv[1:6]
json.dump({"property":prop,"name":name,"needs_to_manifest":"see NOTES.md (written by the independent sub-agent)","confirmed":{"pinned_lib_tests_with_change":lib,"demo_with_change":dw,"demo_without_change":dwo,"how":"tools/verify_seed.sh in a scratch worktree of /repo (removed afterwards)"},"detected_by":None},open(f"/verif/seeded/{name}/meta.json","w"),indent=1)
PY
  echo CONFIRMED
else echo NOT-CONFIRMED; fi
cd /; git -C /repo worktree remove --force "$WT"
