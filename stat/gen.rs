// Emits the statically typed sub-enumeration: the same enumerators as the run-time engines
// (cvm::enumerate), rendered to Rust source by cvm::codegen, so the static set is a
// sub-enumeration by construction.
use cvm::ast::*;
use cvm::codegen::case_fn;
use cvm::enumerate as en;
use std::fmt::Write;

pub fn generate(part: usize, nparts: usize) {
    println!("cargo:rerun-if-changed=build.rs");
    println!("cargo:rerun-if-changed=../gen.rs");
    println!("cargo:rerun-if-changed=../../model/src/codegen.rs");
    println!("cargo:rerun-if-changed=../../model/src/enumerate.rs");
    println!("cargo:rerun-if-changed=../../model/src/ast.rs");
    let mut cases: Vec<(&'static str, G)> = vec![];
    // C01: every K01 grammar with <= 2 nodes, a stride of the 3-node ones
    let k = en::k01().by_size(3);
    for g in k[1].iter().chain(k[2].iter()) {
        cases.push(("c01", g.clone()));
    }
    for g in k[3].iter().step_by(11) {
        cases.push(("c01", g.clone()));
    }
    // extended class (recovery, validate, labels, separators): <= 2 nodes and a stride of 3-node ones
    let ke = en::k_ext().by_size(3);
    for g in ke[2].iter() {
        cases.push(("ext", g.clone()));
    }
    for g in ke[3].iter().step_by(13) {
        cases.push(("ext", g.clone()));
    }
    // C11: every Kmemo grammar with <= 3 nodes and every Kcore grammar with <= 2 nodes x every
    // non-empty subset of nodes memoized (nested, adjacent, zero-sized placements included)
    let mut base: Vec<G> = en::k_memo().upto(3);
    base.extend(en::k_core().upto(2));
    base.push(Or(b(Empty), b(End)));
    base.push(Or(b(To(b(Empty))), b(To(b(End)))));
    for g in &base {
        let n = g.size() as u32;
        for mask in 1..(1u32 << n) {
            cases.push(("memo", en::decorate(g, mask, &|x| Memo(b(x)))));
        }
    }
    let mut out = String::new();
    let mut table = String::new();
    let mut n = 0;
    for (ci, (set, g)) in cases.iter().enumerate() {
        if ci % nparts != part {
            continue;
        }
        if let Some(f) = case_fn(n, g, true) {
            out += &f;
            writeln!(table, "    ({:?}, {:?}, c{} as CaseFn),", set, g.to_string(), n).unwrap();
            n += 1;
        }
    }
    out += &format!("pub static CASES: &[(&str, &str, CaseFn)] = &[\n{table}];\n");
    let dir = std::env::var("OUT_DIR").unwrap();
    std::fs::write(std::path::Path::new(&dir).join("static_cases.rs"), out).unwrap();
}
