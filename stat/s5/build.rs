include!("../gen.rs");
fn main() {
    generate(5, 6);
}
