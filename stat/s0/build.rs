include!("../gen.rs");
fn main() {
    generate(0, 6);
}
