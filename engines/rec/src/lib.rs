//! C11 (left recursion terminates under memoization) and C12 (recursive parsers equal their
//! unrolling, survive clone/box/drop histories, nest to any depth, refuse a second definition).

use chumsky::error::Rich;
use chumsky::pratt::*;
use chumsky::prelude::*;
use chumsky::recursive::{Direct, Indirect};
use cvh::unit::{ShardCtx, Tier, UnitResult};
use serde_json::{json, Value};
use std::collections::HashSet;
use std::panic::{catch_unwind, AssertUnwindSafe};

type Ex<'a> = extra::Err<Rich<'a, char>>;
type ExC<'a> = extra::Full<Rich<'a, char>, (), char>;
type BP<'a, O> = chumsky::Boxed<'a, 'a, &'a str, O, Ex<'a>>;

pub fn strings(alpha: &[char], l: usize) -> Vec<String> {
    let mut all = vec![String::new()];
    let mut cur = vec![String::new()];
    for _ in 0..l {
        let mut nx = vec![];
        for s in &cur {
            for a in alpha {
                let mut t = s.clone();
                t.push(*a);
                nx.push(t);
            }
        }
        all.extend(nx.iter().cloned());
        cur = nx;
    }
    all
}

fn mism(r: &mut UnitResult, engine: &str, unit: &str, case: String, input: &str, detail: String) {
    r.mismatch_count += 1;
    if r.mismatches.len() < 20 {
        r.mismatches.push(json!({"engine": engine, "unit": unit, "case": case, "input": input, "categories": [engine], "detail": detail, "explained_by": []}));
    }
}

// =================================================================================================
// C11: left-recursive families
// =================================================================================================

pub fn leftrec_variants<'a>() -> Vec<(&'static str, BP<'a, String>)> {
    let atom = || just::<_, &str, Ex>('x').to("x".to_string());
    vec![
        (
            "expr = (expr '+' expr).memoized() | atom",
            recursive(|expr| {
                let sum = expr.clone().then_ignore(just('+')).then(expr).map(|(a, b): (String, String)| format!("({a}+{b})")).memoized();
                sum.or(atom())
            })
            .boxed(),
        ),
        (
            "expr = (expr '+' atom).memoized() | atom",
            recursive(|expr| {
                let sum = expr.then_ignore(just('+')).then(atom()).map(|(a, b): (String, String)| format!("({a}+{b})")).memoized();
                sum.or(atom())
            })
            .boxed(),
        ),
        (
            "expr = ((expr '+' atom) | atom).memoized()",
            recursive(|expr| {
                let sum = expr.then_ignore(just('+')).then(atom()).map(|(a, b): (String, String)| format!("({a}+{b})"));
                sum.or(atom()).memoized()
            })
            .boxed(),
        ),
        (
            "expr = (expr atom*).memoized() | atom   (left recursion through a repetition)",
            recursive(|expr| {
                let app = expr.then(atom().repeated().at_least(1).collect::<Vec<_>>()).map(|(a, b): (String, Vec<String>)| format!("({a} {})", b.join(" "))).memoized();
                app.or(atom())
            })
            .boxed(),
        ),
        (
            "expr = (map_err(expr '+' atom) | atom).memoized()  (error post-processing around the recursive alternative)",
            recursive(|expr| {
                let sum = expr.then_ignore(just('+')).then(atom()).map(|(a, b): (String, String)| format!("({a}+{b})")).map_err(|e: Rich<char>| e);
                sum.or(atom()).memoized()
            })
            .boxed(),
        ),
        (
            "expr = (recover_with(expr '+' atom, via_parser('?')) | atom).memoized()",
            recursive(|expr| {
                let sum = expr.then_ignore(just('+')).then(atom()).map(|(a, b): (String, String)| format!("({a}+{b})")).recover_with(via_parser(just('?').to("?".to_string())));
                sum.or(atom()).memoized()
            })
            .boxed(),
        ),
        (
            "expr = (labelled(expr '+' atom).as_context() | custom(|inp| inp.parse(atom))).memoized()",
            recursive(|expr| {
                let sum = expr.then_ignore(just('+')).then(atom()).map(|(a, b): (String, String)| format!("({a}+{b})")).labelled("sum").as_context();
                let at = atom();
                sum.or(custom(move |inp| inp.parse(&at))).memoized()
            })
            .boxed(),
        ),
        (
            "expr = custom(|inp| inp.parse(expr '+' atom)) | atom, memoized",
            recursive(|expr| {
                let sum = expr.then_ignore(just('+')).then(atom()).map(|(a, b): (String, String)| format!("({a}+{b})")).boxed();
                custom(move |inp| inp.parse(&sum)).or(atom()).memoized()
            })
            .boxed(),
        ),
        // the recursion passes through a context boundary on its way back to the same position: the
        // in-progress marker of the memoized step must still be visible below with_ctx / map_ctx /
        // ignore_with_ctx / then_with_ctx
        (
            "expr = (expr.with_ctx(()) '+' atom).with_ctx('q').memoized() | atom",
            recursive(|expr| {
                let inner = expr.with_ctx(()).then_ignore(just::<_, &str, ExC>('+')).then(just::<_, &str, ExC>('x').to("x".to_string())).map(|(a, b): (String, String)| format!("({a}+{b})"));
                Parser::<&str, String, Ex>::memoized(inner.with_ctx('q')).or(atom())
            })
            .boxed(),
        ),
        (
            "expr = (expr.with_ctx(()) '+' atom).memoized().with_ctx('q') | atom   (memoized below the context boundary)",
            recursive(|expr| {
                let inner = expr.with_ctx(()).then_ignore(just::<_, &str, ExC>('+')).then(just::<_, &str, ExC>('x').to("x".to_string())).map(|(a, b): (String, String)| format!("({a}+{b})")).memoized();
                Parser::<&str, String, Ex>::or(inner.with_ctx('q'), atom())
            })
            .boxed(),
        ),
        (
            "expr = map_ctx(|()| 'q', expr.with_ctx(()) '+' atom).memoized() | atom",
            recursive(|expr| {
                let inner = expr.with_ctx(()).then_ignore(just::<_, &str, ExC>('+')).then(just::<_, &str, ExC>('x').to("x".to_string())).map(|(a, b): (String, String)| format!("({a}+{b})"));
                map_ctx::<_, _, _, Ex, _, _>(|_: &()| 'q', inner).memoized().or(atom())
            })
            .boxed(),
        ),
        (
            "expr = (empty.to('q').ignore_with_ctx(expr.with_ctx(()) '+' atom)).memoized() | atom",
            recursive(|expr| {
                let inner = expr.with_ctx(()).then_ignore(just::<_, &str, ExC>('+')).then(just::<_, &str, ExC>('x').to("x".to_string())).map(|(a, b): (String, String)| format!("({a}+{b})"));
                empty::<&str, Ex>().to('q').ignore_with_ctx(inner).memoized().or(atom())
            })
            .boxed(),
        ),
        (
            "expr = (empty.to('q').then_with_ctx(expr.with_ctx(()) '+' atom)).memoized() | atom",
            recursive(|expr| {
                let inner = expr.with_ctx(()).then_ignore(just::<_, &str, ExC>('+')).then(just::<_, &str, ExC>('x').to("x".to_string())).map(|(a, b): (String, String)| format!("({a}+{b})"));
                empty::<&str, Ex>().to('q').then_with_ctx(inner).map(|(_, v): (char, String)| v).memoized().or(atom())
            })
            .boxed(),
        ),
        (
            "a = (b '+').memoized() | atom ; b = a  (indirect left recursion)",
            {
                let mut a = Recursive::declare();
                let mut b = Recursive::declare();
                a.define(b.clone().then_ignore(just('+')).map(|x: String| format!("({x}+)")).memoized().or(atom()));
                b.define(a.clone());
                a.boxed()
            },
        ),
    ]
}

pub fn run_leftrec(name: &str, len: usize, cx: &ShardCtx) -> UnitResult {
    let mut r = UnitResult { name: name.to_string(), exhaustive: true, ..Default::default() };
    let ins = strings(&['x', '+', '?'], len);
    let vs = leftrec_variants();
    let mut distinct = HashSet::new();
    let mut case = 0usize;
    for (vi, (vname, p)) in vs.iter().enumerate() {
        for s in &ins {
            let me = case % cx.nshards == cx.shard;
            case += 1;
            if !me || cx.skip.contains(&(case - 1)) {
                continue;
            }
            (cx.progress)(case - 1);
            r.cases += 1;
            r.validated += 1;
            let got = catch_unwind(AssertUnwindSafe(|| {
                let (o, e) = p.parse(s.as_str()).into_output_errors();
                let c = p.check(s.as_str());
                let nce = c.errors().len();
                (o, e.len(), c.has_output(), nce)
            }));
            r.states += s.len() as u64 + 1;
            r.transitions += s.len() as u64 + 1;
            match got {
                Err(e) => mism(&mut r, "leftrec", name, vname.to_string(), s, format!("panic: {}", cvh::e1::panic_msg(e))),
                Ok((o, ne, c, nce)) => {
                    if o.is_some() {
                        *r.counters.entry("accepted".into()).or_default() += 1;
                    } else {
                        *r.counters.entry("rejected".into()).or_default() += 1;
                    }
                    distinct.insert((vi, o.clone()));
                    if o.is_none() && ne == 0 {
                        mism(&mut r, "leftrec", name, vname.to_string(), s, "no output and no error".into());
                    } else if c != o.is_some() || nce != ne {
                        mism(&mut r, "leftrec", name, vname.to_string(), s, format!("check() (accepted={c}, {nce} errors) disagrees with parse() (accepted={}, {ne} errors)", o.is_some()));
                    } else if let Some(o) = &o {
                        // whatever tree is built, its leaves in order are the input's atoms
                        let flat: String = o.chars().filter(|c| *c == 'x' || *c == '+').collect();
                        let want: String = s.chars().collect();
                        let recovering = vname.contains("recover_with");
                        if !recovering && (flat.replace('+', "") != want.replace('+', "").replace(' ', "") || !want.chars().all(|c| c == 'x' || c == '+')) {
                            mism(&mut r, "leftrec", name, vname.to_string(), s, format!("accepted {s:?} with output {o:?} whose atoms are not the input's"));
                        }
                    }
                    if r.samples.len() < 5 && s.len() >= 3 && o.is_some() {
                        r.samples.push(format!("{vname} on {s:?} -> {:?} (terminated)", o));
                    }
                }
            }
        }
    }
    r.distinct_outcomes = distinct.len() as u64;
    r.desc = format!("left-recursive families ({} variants, recursive step memoized) on all {} strings over \"x+?\" of length <= {}: every parse and check returns (a stack overflow or hang kills the worker and is attributed to the case)", vs.len(), ins.len(), len);
    r
}

// =================================================================================================
// C11 / C13: one memoized parser used at several places of a left-recursive grammar, shared as ONE value
// (Rc) or as value clones (Clone for Memoized, Box<Memoized>::clone): a clone is interchangeable with the
// value it was cloned from, also as the in-progress marker that cuts left recursion
// =================================================================================================

macro_rules! shared_forms {
    ($name:expr, |$share:ident, $atom:ident| $body:expr) => {{
        let $atom = || just::<_, &str, Ex>('x').to("x".to_string());
        // form A: every use refers to one value behind an Rc
        let a: BP<String> = {
            #[allow(unused_macros)]
            macro_rules! $share {
                ($p:expr) => {
                    std::rc::Rc::new($p)
                };
            }
            $body
        };
        // form B: every use is a clone of the combinator value itself
        let b: BP<String> = {
            #[allow(unused_macros)]
            macro_rules! $share {
                ($p:expr) => {
                    $p
                };
            }
            $body
        };
        // form C: the value lives in a Box; Box::clone clones the combinator value
        let c: BP<String> = {
            #[allow(unused_macros)]
            macro_rules! $share {
                ($p:expr) => {
                    Box::new($p)
                };
            }
            $body
        };
        ($name, a, b, c)
    }};
}

type Shared<'a> = (&'static str, BP<'a, String>, BP<'a, String>, BP<'a, String>);

pub fn shared_memo_variants<'a>() -> Vec<Shared<'a>> {
    let f2 = |(a, b): (String, String)| format!("({a}+{b})");
    vec![
        shared_forms!("stmt = sum ';' | expr '?' ; expr = sum | atom ; sum = (expr '+' atom).memoized()  [sum used twice]", |share, atom| {
            let mut expr = Recursive::declare();
            let sum = share!(expr.clone().then_ignore(just('+')).then(atom()).map(f2).memoized());
            expr.define(sum.clone().or(atom()));
            sum.clone().then_ignore(just(';')).or(expr.then_ignore(just('?'))).boxed()
        }),
        shared_forms!("expr = sum '?' | sum | atom ; sum = (expr '+' atom).memoized()  [two uses in one choice]", |share, atom| {
            recursive(|expr| {
                let sum = share!(expr.then_ignore(just('+')).then(atom()).map(f2).memoized());
                sum.clone().then_ignore(just('?')).map(|s: String| format!("{s}?")).or(sum.clone()).or(atom())
            })
            .boxed()
        }),
        shared_forms!("expr = (e '+' atom) | e ';' | atom ; e = expr.memoized()  [the recursive reference itself memoized and used twice]", |share, atom| {
            recursive(|expr| {
                let e = share!(expr.memoized());
                e.clone().then_ignore(just('+')).then(atom()).map(f2).or(e.clone().then_ignore(just(';')).map(|s: String| format!("{s};"))).or(atom())
            })
            .boxed()
        }),
        shared_forms!("top = item (';' item)* ; item = m '?' | m ; m = (atom ('+' atom)*).memoized()  [no recursion: a cached result is looked up by the second use]", |share, atom| {
            let m = share!(atom().foldl(just('+').ignore_then(atom()).repeated(), |a, b| format!("({a}+{b})")).memoized());
            let item = m.clone().then_ignore(just('?')).map(|s: String| format!("{s}?")).or(m.clone());
            item.clone().foldl(just(';').ignore_then(item).repeated(), |a, b| format!("{a};{b}")).boxed()
        }),
        shared_forms!("expr = s '+' atom | s '?' | atom ; s = (expr ';').memoized()  [left recursion reaches the second use after the first failed]", |share, atom| {
            recursive(|expr| {
                let s = share!(expr.then_ignore(just(';')).map(|s: String| format!("{s};")).memoized());
                s.clone().then_ignore(just('+')).then(atom()).map(f2).or(s.clone().then_ignore(just('?'))).or(atom())
            })
            .boxed()
        }),
    ]
}

type SharedObs = Result<(Option<String>, Vec<String>, bool, usize), String>;

fn obs_shared<'a>(p: &BP<'a, String>, s: &'a str) -> SharedObs {
    catch_unwind(AssertUnwindSafe(|| {
        let (o, e) = p.parse(s).into_output_errors();
        let c = p.check(s);
        let (ch, cn) = (c.has_output(), c.errors().len());
        (o, e.iter().map(|e| format!("{e:?}")).collect::<Vec<_>>(), ch, cn)
    }))
    .map_err(cvh::e1::panic_msg)
}

pub fn run_shared_memo(name: &str, len: usize, cx: &ShardCtx) -> UnitResult {
    let mut r = UnitResult { name: name.to_string(), exhaustive: true, ..Default::default() };
    let ins = strings(&['x', '+', ';', '?'], len);
    let vs = shared_memo_variants();
    let mut distinct = HashSet::new();
    let mut case = 0usize;
    for (vi, (vname, pa, pb, pc)) in vs.iter().enumerate() {
        for s in &ins {
            let me = case % cx.nshards == cx.shard;
            case += 1;
            if !me || cx.skip.contains(&(case - 1)) {
                continue;
            }
            (cx.progress)(case - 1);
            r.cases += 1;
            r.validated += 1;
            r.states += 3 * (s.len() as u64 + 1);
            r.transitions += 3 * (s.len() as u64 + 1);
            let (a, b, c) = (obs_shared(pa, s), obs_shared(pb, s), obs_shared(pc, s));
            if let Ok((o, ..)) = &a {
                *r.counters.entry(if o.is_some() { "accepted" } else { "rejected" }.into()).or_default() += 1;
                distinct.insert((vi, o.clone()));
                if r.samples.len() < 5 && s.len() >= 4 && o.is_some() {
                    r.samples.push(format!("{vname} on {s:?} -> {o:?} in all three sharing forms"));
                }
            }
            if let Err(e) = &a {
                mism(&mut r, "sharedmemo", name, vname.to_string(), s, format!("panic: {e}"));
            } else if a != b {
                mism(&mut r, "sharedmemo", name, vname.to_string(), s, format!("uses that are clones of the memoized value give {b:?}, uses that share one value (Rc) give {a:?}"));
            } else if a != c {
                mism(&mut r, "sharedmemo", name, vname.to_string(), s, format!("uses that are Box::clone()s of the memoized value give {c:?}, uses that share one value (Rc) give {a:?}"));
            }
        }
    }
    r.distinct_outcomes = distinct.len() as u64;
    r.desc = format!("one memoized parser used at two places of a grammar ({} grammars, 4 of them left recursive through it), the uses sharing one value through an Rc vs being Clone::clone()s of the combinator value vs Box::clone()s of it: parse (output, every error) and check agree on all {} strings over \"x+;?\" of length <= {}", vs.len(), ins.len(), len);
    r
}

// =================================================================================================
// C11 / C20: errors replayed from the memo table (clones of a stored error, merged into the pending one) must not
// grow: a labelled().as_context() inside a memoized rule that is visited twice at every nesting level
// =================================================================================================

fn ctx_memo_grammar<'a>(memo: bool) -> BP<'a, usize> {
    recursive(|e| {
        let inner = e.delimited_by(just('('), just(')')).map(|n: usize| n + 1).labelled("group").as_context();
        let inner: BP<usize> = if memo { inner.memoized().boxed() } else { inner.boxed() };
        // the rule is tried twice at the same position (a garden path): the second visit is a memo hit
        inner.clone().then_ignore(just('!')).or(inner).or(just('a').to(0usize))
    })
    .boxed()
}

type CtxObs = Result<(Option<usize>, Vec<String>, usize, bool, Vec<String>), String>;

fn obs_ctx<'a>(p: &BP<'a, usize>, s: &'a str) -> CtxObs {
    catch_unwind(AssertUnwindSafe(|| {
        let (o, e) = p.parse(s).into_output_errors();
        let nctx = e.iter().map(|e| e.contexts().count()).max().unwrap_or(0);
        let c = p.check(s);
        let ok = c.has_output();
        (o, e.iter().map(|e| format!("{e:?}")).collect(), nctx, ok, c.into_errors().iter().map(|e| format!("{e:?}")).collect())
    }))
    .map_err(cvh::e1::panic_msg)
}

pub fn run_ctx_memo(name: &str, len: usize, maxdepth: usize, cx: &ShardCtx) -> UnitResult {
    let mut r = UnitResult { name: name.to_string(), exhaustive: true, ..Default::default() };
    let mut ins = strings(&['(', ')', 'a', '!', 'x'], len);
    // deep points: d openers around a typo / a missing closer / a well-formed core
    for d in 1..=maxdepth {
        ins.push("(".repeat(d) + "x" + &")".repeat(d));
        ins.push("(".repeat(d) + "a" + &")".repeat(d - 1));
        ins.push("(".repeat(d) + "a" + &")".repeat(d) + "!");
        ins.push("(".repeat(d) + "a" + &")!".repeat(d));
    }
    let (plain, memo) = (ctx_memo_grammar(false), ctx_memo_grammar(true));
    let mut distinct = HashSet::new();
    for (i, s) in ins.iter().enumerate() {
        if i % cx.nshards != cx.shard || cx.skip.contains(&i) {
            continue;
        }
        (cx.progress)(i);
        r.cases += 1;
        r.validated += 1;
        r.states += s.len() as u64 + 1;
        r.transitions += 2;
        let (a, b) = (obs_ctx(&plain, s), obs_ctx(&memo, s));
        let depth = s.chars().take_while(|c| *c == '(').count();
        match (&a, &b) {
            (Err(e), _) | (_, Err(e)) => mism(&mut r, "ctxmemo", name, "group grammar".into(), s, format!("panic: {e}")),
            (Ok(x), Ok(y)) => {
                *r.counters.entry(if x.0.is_some() { "accepted" } else { "rejected" }.into()).or_default() += 1;
                distinct.insert((x.0, x.1.clone()));
                if y.2 > depth + 1 {
                    mism(&mut r, "ctxmemo", name, "group grammar".into(), s, format!("an error of the memoized grammar carries {} context frames for {} levels of nesting", y.2, depth));
                } else if x != y {
                    mism(&mut r, "ctxmemo", name, "group grammar".into(), s, format!("memoized grammar: {:?} / check {:?}; plain grammar: {:?} / check {:?}", (&y.0, &y.1), (y.3, &y.4), (&x.0, &x.1), (x.3, &x.4)));
                }
                if r.samples.len() < 3 && depth >= 4 && x.0.is_none() {
                    r.samples.push(format!("{s:?}: rejected with {} context frame(s) in both forms", x.2));
                }
            }
        }
    }
    r.distinct_outcomes = distinct.len() as u64;
    r.desc = format!("expr = group '!' | group | 'a', group = ('(' expr ')').labelled().as_context() - with group memoized (its second visit at every level is a memo hit replaying a stored error) vs plain: identical outputs and errors (with their context frames) on all {} strings over \"()a!x\" of length <= {} and on nestings up to depth {} around a typo / a missing closer; no error carries more context frames than there are nesting levels + 1", ins.len(), len, maxdepth);
    r
}

// =================================================================================================
// C12 / C13: the recursion handle used through wrappers INSIDE its own definition (handle.boxed(), Rc, Box, a
// declared handle boxed, two declared parsers referring to each other through boxed handles) - the same
// language and the same errors as with the plain handle
// =================================================================================================

pub fn erased_handle_forms<'a>() -> Vec<(&'static str, BP<'a, usize>)> {
    fn body<'a>(r: impl Parser<'a, &'a str, usize, Ex<'a>> + Clone + 'a) -> impl Parser<'a, &'a str, usize, Ex<'a>> + Clone + 'a {
        r.clone().delimited_by(just('('), just(')')).map(|n: usize| n + 1).or(just('a').to(0usize)).or(r.delimited_by(just('['), just(']')).map(|n: usize| n + 100))
    }
    vec![
        ("recursive(|h| body(h))", recursive(|h| body(h)).boxed()),
        ("recursive(|h| body(h.boxed()))", recursive(|h| body(h.boxed())).boxed()),
        ("recursive(|h| body(Rc::new(h)))", recursive(|h| body(std::rc::Rc::new(h))).boxed()),
        ("recursive(|h| body(Box::new(h)))", recursive(|h| body(Box::new(h))).boxed()),
        ("recursive(|h| body(h.clone().boxed().boxed()))", recursive(|h| body(h.clone().boxed().boxed())).boxed()),
        ("declare; define(body(p.clone().boxed()))", {
            let mut p = Recursive::declare();
            p.define(body(p.clone().boxed()));
            p.boxed()
        }),
        ("declare a, b; a = body(b.boxed()); b = a.boxed()", {
            let mut a = Recursive::declare();
            let mut b = Recursive::declare();
            a.define(body(b.clone().boxed()));
            b.define(a.clone().boxed());
            a.boxed()
        }),
    ]
}

type ErasedObs = Result<(Option<usize>, Vec<String>, bool, usize), String>;
fn obs_erased<'a>(p: &BP<'a, usize>, s: &'a str) -> ErasedObs {
    catch_unwind(AssertUnwindSafe(|| {
        let (o, e) = p.parse(s).into_output_errors();
        let c = p.check(s);
        let (ok, n) = (c.has_output(), c.errors().len());
        (o, e.iter().map(|e| format!("{e:?}")).collect(), ok, n)
    }))
    .map_err(cvh::e1::panic_msg)
}

pub fn run_erased(name: &str, len: usize, cx: &ShardCtx) -> UnitResult {
    let mut r = UnitResult { name: name.to_string(), exhaustive: true, ..Default::default() };
    let ins = strings(&['(', ')', '[', ']', 'a'], len);
    // building a form may itself panic (a handle that cannot be wrapped while its definition is being built)
    let forms = match catch_unwind(AssertUnwindSafe(erased_handle_forms)) {
        Ok(f) => f,
        Err(e) => {
            if cx.shard == 0 {
                r.cases += 1;
                mism(&mut r, "rec-erased", name, "building the grammars".into(), "", format!("panic while building a grammar whose recursion handle is wrapped inside its definition: {}", cvh::e1::panic_msg(e)));
            }
            return r;
        }
    };
    let mut distinct = HashSet::new();
    for (i, s) in ins.iter().enumerate() {
        if i % cx.nshards != cx.shard || cx.skip.contains(&i) {
            continue;
        }
        (cx.progress)(i);
        let base = obs_erased(&forms[0].1, s);
        if let Ok((o, ..)) = &base {
            *r.counters.entry(if o.is_some() { "accepted" } else { "rejected" }.into()).or_default() += 1;
            distinct.insert(format!("{base:?}"));
        }
        for (fname, p) in &forms[1..] {
            r.cases += 1;
            r.validated += 1;
            r.states += s.len() as u64 + 1;
            r.transitions += 1;
            let got = obs_erased(p, s);
            if got != base {
                mism(&mut r, "rec-erased", name, fname.to_string(), s, format!("{got:?}, with the plain handle {base:?}"));
            }
        }
    }
    r.distinct_outcomes = distinct.len() as u64;
    r.desc = format!("R = '(' R ')' | 'a' | '[' R ']' with the recursion handle wrapped inside its own definition ({} forms: boxed(), Rc, Box, boxed twice, a declared handle boxed, two declared parsers through boxed handles) vs the plain handle: same outputs, errors and check() on all {} strings over \"()[]a\" of length <= {}", forms.len() - 1, ins.len(), len);
    r
}

// =================================================================================================
// C12: guarded recursive templates against their unrolling
// =================================================================================================

/// reference recognisers: native recursion = unrolling as deep as the input requires
mod reference {
    pub struct St {
        pub steps: u64,
        pub states: std::collections::HashSet<(u8, usize)>,
        pub max_depth: usize,
    }
    pub fn t1(t: &[char], p: usize, d: usize, st: &mut St) -> Option<(usize, String)> {
        st.steps += 1;
        st.states.insert((1, p));
        st.max_depth = st.max_depth.max(d);
        match t.get(p) {
            Some('(') => {
                let (e, v) = t1(t, p + 1, d + 1, st)?;
                if t.get(e) == Some(&')') {
                    Some((e + 1, format!("<{v}>")))
                } else {
                    None
                }
            }
            Some('a') => Some((p + 1, "a".into())),
            _ => None,
        }
    }
    pub fn t2(t: &[char], p: usize, d: usize, st: &mut St) -> Option<(usize, String)> {
        st.steps += 1;
        st.states.insert((2, p));
        st.max_depth = st.max_depth.max(d);
        match t.get(p) {
            Some('a') => {
                let (e, v) = t2(t, p + 1, d + 1, st)?;
                Some((e, format!("a{v}")))
            }
            Some('b') => Some((p + 1, "b".into())),
            _ => None,
        }
    }
    /// R = '[' R (',' R)* ']' | 'a'   (PEG: the repetition is greedy and possessive)
    pub fn t3(t: &[char], p: usize, d: usize, st: &mut St) -> Option<(usize, String)> {
        st.steps += 1;
        st.states.insert((3, p));
        st.max_depth = st.max_depth.max(d);
        match t.get(p) {
            Some('[') => {
                let (mut e, v) = t3(t, p + 1, d + 1, st)?;
                let mut items = vec![v];
                while t.get(e) == Some(&',') {
                    match t3(t, e + 1, d + 1, st) {
                        Some((e2, v2)) => {
                            items.push(v2);
                            e = e2;
                        }
                        None => break,
                    }
                }
                if t.get(e) == Some(&']') {
                    Some((e + 1, format!("[{}]", items.join(";"))))
                } else {
                    None
                }
            }
            Some('a') => Some((p + 1, "a".into())),
            _ => None,
        }
    }
    /// A = 'a' B | 'c' ; B = 'b' A | 'd'
    pub fn t4a(t: &[char], p: usize, d: usize, st: &mut St) -> Option<(usize, String)> {
        st.steps += 1;
        st.states.insert((4, p));
        st.max_depth = st.max_depth.max(d);
        match t.get(p) {
            Some('a') => {
                let (e, v) = t4b(t, p + 1, d + 1, st)?;
                Some((e, format!("A({v})")))
            }
            Some('c') => Some((p + 1, "c".into())),
            _ => None,
        }
    }
    pub fn t4b(t: &[char], p: usize, d: usize, st: &mut St) -> Option<(usize, String)> {
        st.steps += 1;
        st.states.insert((5, p));
        st.max_depth = st.max_depth.max(d);
        match t.get(p) {
            Some('b') => {
                let (e, v) = t4a(t, p + 1, d + 1, st)?;
                Some((e, format!("B({v})")))
            }
            Some('d') => Some((p + 1, "d".into())),
            _ => None,
        }
    }
}

pub struct Template<'a> {
    pub name: &'static str,
    pub alpha: &'static [char],
    pub reference: fn(&[char], usize, usize, &mut reference::St) -> Option<(usize, String)>,
    /// the same grammar built in different ways; all must behave identically
    pub forms: Vec<(&'static str, BP<'a, String>)>,
}

pub fn templates<'a>() -> Vec<Template<'a>> {
    fn s(c: char) -> String {
        c.to_string()
    }
    let mut v = vec![];
    // T1
    {
        let body = |r: BP<'a, String>| r.delimited_by(just('('), just(')')).map(|v: String| format!("<{v}>")).or(just('a').map(s));
        let f1 = recursive(|r| body(r.boxed())).boxed();
        let mut d = Recursive::declare();
        d.define(body(d.clone().boxed()));
        let f2 = d.clone().boxed();
        let f3 = {
            // clone of the defined parser, original dropped
            let c = d.clone();
            drop(d);
            c.boxed()
        };
        v.push(Template { name: "R = '(' R ')' | 'a'", alpha: &['(', ')', 'a'], reference: reference::t1, forms: vec![("recursive()", f1), ("declare/define", f2), ("declare/define, clone after dropping the original", f3)] });
    }
    // T2
    {
        let body = |r: BP<'a, String>| just('a').ignore_then(r).map(|v: String| format!("a{v}")).or(just('b').map(s));
        let f1 = recursive(|r| body(r.boxed())).boxed();
        let mut d = Recursive::declare();
        d.define(body(d.clone().boxed()));
        v.push(Template { name: "R = 'a' R | 'b'", alpha: &['a', 'b', 'c'], reference: reference::t2, forms: vec![("recursive()", f1), ("declare/define", d.boxed())] });
    }
    // T3
    {
        let body = |r: BP<'a, String>| {
            r.clone()
                .then(just(',').ignore_then(r).repeated().collect::<Vec<String>>())
                .delimited_by(just('['), just(']'))
                .map(|(h, t): (String, Vec<String>)| {
                    let mut items = vec![h];
                    items.extend(t);
                    format!("[{}]", items.join(";"))
                })
                .or(just('a').map(s))
        };
        let f1 = recursive(|r| body(r.boxed())).boxed();
        let mut d = Recursive::declare();
        d.define(body(d.clone().boxed()));
        v.push(Template { name: "R = '[' R (',' R)* ']' | 'a'", alpha: &['[', ']', ',', 'a'], reference: reference::t3, forms: vec![("recursive()", f1), ("declare/define", d.boxed())] });
    }
    // T4 (mutual)
    {
        let mk = || {
            let mut a = Recursive::declare();
            let mut b = Recursive::declare();
            a.define(just('a').ignore_then(b.clone()).map(|v: String| format!("A({v})")).or(just('c').map(s)));
            b.define(just('b').ignore_then(a.clone()).map(|v: String| format!("B({v})")).or(just('d').map(s)));
            (a, b)
        };
        let (a1, _b1) = mk();
        let f1 = a1.clone().boxed();
        // only one of the two is returned; the other handle is dropped
        let f2 = {
            let (a, b) = mk();
            drop(b);
            let c = a.clone();
            drop(a);
            c.boxed()
        };
        // mutual recursion through nested recursive() closures
        let f3 = recursive(|a| {
            let a: BP<'a, String> = a.boxed();
            let b = just('b').ignore_then(a).map(|v: String| format!("B({v})")).or(just('d').map(s));
            just('a').ignore_then(b).map(|v: String| format!("A({v})")).or(just('c').map(s))
        })
        .boxed();
        v.push(Template { name: "A = 'a' B | 'c' ; B = 'b' A | 'd'", alpha: &['a', 'b', 'c', 'd'], reference: reference::t4a, forms: vec![("declare/define x2", f1), ("declare/define x2, other handles dropped", f2), ("recursive() with B inlined", f3)] });
    }
    v
}

pub fn run_templates(name: &str, len: usize, cx: &ShardCtx) -> UnitResult {
    let mut r = UnitResult { name: name.to_string(), exhaustive: true, ..Default::default() };
    // input buffers are allocated before the parsers that will read them (dyn drop glue)
    let all_ins: Vec<Vec<String>> = [&['(', ')', 'a'][..], &['a', 'b', 'c'][..], &['[', ']', ',', 'a'][..], &['a', 'b', 'c', 'd'][..]].iter().map(|a| strings(a, len)).collect();
    let ts = templates();
    let mut distinct = HashSet::new();
    let mut case = 0usize;
    let mut maxd = 0usize;
    let mut nin = 0usize;
    for (ti, t) in ts.iter().enumerate() {
        let ins = &all_ins[ti];
        assert_eq!(ins[1].chars().next(), Some(t.alpha[0]));
        nin += ins.len();
        for s in ins {
            let me = case % cx.nshards == cx.shard;
            case += 1;
            if !me || cx.skip.contains(&(case - 1)) {
                continue;
            }
            (cx.progress)(case - 1);
            r.cases += 1;
            let toks: Vec<char> = s.chars().collect();
            let mut st = reference::St { steps: 0, states: HashSet::new(), max_depth: 0 };
            let want = (t.reference)(&toks, 0, 0, &mut st).filter(|(e, _)| *e == toks.len()).map(|(_, v)| v);
            r.transitions += st.steps;
            r.states += st.states.len() as u64;
            maxd = maxd.max(st.max_depth);
            distinct.insert((ti, want.clone()));
            if want.is_some() {
                *r.counters.entry("accepted".into()).or_default() += 1;
            } else {
                *r.counters.entry("rejected".into()).or_default() += 1;
            }
            let mut first: Option<(Option<String>, Vec<String>)> = None;
            for (fname, p) in &t.forms {
                r.validated += 1;
                let got = catch_unwind(AssertUnwindSafe(|| {
                    let (o, e) = p.parse(s.as_str()).into_output_errors();
                    let c = p.check(s.as_str());
                    let ce: Vec<String> = c.errors().map(|e| format!("{e:?}")).collect();
                    (o, e.iter().map(|e| format!("{e:?}")).collect::<Vec<_>>(), c.has_output(), ce)
                }));
                match got {
                    Err(e) => mism(&mut r, "rec", name, format!("{} [{}]", t.name, fname), s, format!("panic: {}", cvh::e1::panic_msg(e))),
                    Ok((o, errs, c, cerrs)) => {
                        if o != want {
                            mism(&mut r, "rec", name, format!("{} [{}]", t.name, fname), s, format!("output {:?}, the unrolled grammar gives {:?}", o, want));
                        } else if c != o.is_some() || cerrs != errs {
                            mism(&mut r, "rec", name, format!("{} [{}]", t.name, fname), s, "check() disagrees with parse()".into());
                        } else if o.is_none() && errs.is_empty() {
                            mism(&mut r, "rec", name, format!("{} [{}]", t.name, fname), s, "no output and no error".into());
                        }
                        match &first {
                            None => first = Some((o, errs)),
                            Some((fo, fe)) => {
                                if *fo != o || *fe != errs {
                                    mism(&mut r, "rec", name, format!("{} [{}]", t.name, fname), s, format!("differs from the first form: {:?} {:?} vs {:?} {:?}", o, errs, fo, fe));
                                }
                            }
                        }
                    }
                }
            }
            if r.samples.len() < 5 && want.is_some() && s.len() >= 5 {
                r.samples.push(format!("{} on {:?} -> {:?} (nesting depth {})", t.name, s, want, st.max_depth));
            }
        }
    }
    r.counters.insert("max_nesting_depth_reached".into(), maxd as u64);
    r.distinct_outcomes = distinct.len() as u64;
    r.desc = format!("guarded recursive templates ({}; built with recursive(), Recursive::declare/define, clones with the original dropped) on all {} strings of length <= {} over each template's alphabet, against native-recursion reference recognisers; outputs, check() and complete error lists equal across forms", ts.iter().map(|t| t.name).collect::<Vec<_>>().join(" | "), nin, len);
    r
}

// ---- life-cycle histories --------------------------------------------------------------------------------------

type RecD<'a> = Recursive<Direct<'a, 'a, &'a str, String, Ex<'a>>>;
type RecI<'a> = Recursive<Indirect<'a, 'a, &'a str, String, Ex<'a>>>;

enum Handle<'a> {
    D(RecD<'a>),
    I(RecI<'a>),
    B(BP<'a, String>),
}
impl<'a> Handle<'a> {
    fn dup(&self) -> Handle<'a> {
        match self {
            Handle::D(r) => Handle::D(r.clone()),
            Handle::I(r) => Handle::I(r.clone()),
            Handle::B(b) => Handle::B(b.clone()),
        }
    }
    fn boxed(&self) -> Handle<'a> {
        match self {
            Handle::D(r) => Handle::B(r.clone().boxed()),
            Handle::I(r) => Handle::B(r.clone().boxed()),
            Handle::B(b) => Handle::B(b.clone().boxed()),
        }
    }
    fn parse(&self, s: &'a str) -> (Option<String>, usize) {
        let (o, e) = match self {
            Handle::D(r) => r.parse(s).into_output_errors(),
            Handle::I(r) => r.parse(s).into_output_errors(),
            Handle::B(b) => b.parse(s).into_output_errors(),
        };
        (o, e.len())
    }
}

/// operations of a history: Clone(i) / Box(i) push a new handle, Drop(i) removes handle i
/// (never the last one), Parse(i, input)
#[derive(Clone, Copy, Debug, PartialEq, Eq, Hash)]
pub enum HOp {
    Clone(u8),
    Box(u8),
    Drop(u8),
    Parse(u8, u8),
}

pub const LIFE_INPUTS: [&str; 4] = ["((a))", "a", "((a)", "(b)"];

fn initial<'a>(kind: u8) -> Handle<'a> {
    let body = |r: BP<'a, String>| r.delimited_by(just('('), just(')')).map(|v: String| format!("<{v}>")).or(just('a').map(|c: char| c.to_string()));
    if kind == 0 {
        Handle::D(recursive(|r| body(r.boxed())))
    } else {
        let mut d = Recursive::declare();
        d.define(body(d.clone().boxed()));
        Handle::I(d)
    }
}

pub fn run_history(kind: u8, h: &[HOp]) -> Result<(), String> {
    let fresh_results: Vec<(Option<String>, usize)> = LIFE_INPUTS.iter().map(|s| initial(kind).parse(s)).collect();
    let mut hs: Vec<Option<Handle>> = vec![Some(initial(kind))];
    for (k, op) in h.iter().enumerate() {
        match *op {
            HOp::Clone(i) => {
                let n = hs[i as usize].as_ref().unwrap().dup();
                hs.push(Some(n));
            }
            HOp::Box(i) => {
                let n = hs[i as usize].as_ref().unwrap().boxed();
                hs.push(Some(n));
            }
            HOp::Drop(i) => {
                hs[i as usize] = None;
            }
            HOp::Parse(i, w) => {
                let got = hs[i as usize].as_ref().unwrap().parse(LIFE_INPUTS[w as usize]);
                if got != fresh_results[w as usize] {
                    return Err(format!("step {k} ({op:?}): got {:?}, a fresh parser gives {:?}", got, fresh_results[w as usize]));
                }
            }
        }
    }
    Ok(())
}

/// all histories of exactly `n` operations (live handles tracked so that every op is enabled)
pub fn histories(n: usize) -> Vec<Vec<HOp>> {
    fn go(n: usize, live: &mut Vec<bool>, cur: &mut Vec<HOp>, out: &mut Vec<Vec<HOp>>) {
        if cur.len() == n {
            // only histories that end with a parse are interesting
            if matches!(cur.last(), Some(HOp::Parse(..))) {
                out.push(cur.clone());
            }
            return;
        }
        let nlive = live.iter().filter(|b| **b).count();
        for i in 0..live.len() {
            if !live[i] {
                continue;
            }
            for mk in [HOp::Clone(i as u8), HOp::Box(i as u8)] {
                if live.len() < 4 {
                    live.push(true);
                    cur.push(mk);
                    go(n, live, cur, out);
                    cur.pop();
                    live.pop();
                }
            }
            if nlive > 1 {
                live[i] = false;
                cur.push(HOp::Drop(i as u8));
                go(n, live, cur, out);
                cur.pop();
                live[i] = true;
            }
            for w in 0..LIFE_INPUTS.len() {
                cur.push(HOp::Parse(i as u8, w as u8));
                go(n, live, cur, out);
                cur.pop();
            }
        }
    }
    let mut out = vec![];
    go(n, &mut vec![true], &mut vec![], &mut out);
    out
}

pub fn run_lifecycle(name: &str, maxlen: usize, cx: &ShardCtx) -> UnitResult {
    let mut r = UnitResult { name: name.to_string(), exhaustive: true, ..Default::default() };
    let mut case = 0usize;
    let mut distinct = HashSet::new();
    for kind in 0..2u8 {
        for n in 1..=maxlen {
            for h in histories(n) {
                let me = case % cx.nshards == cx.shard;
                case += 1;
                if !me || cx.skip.contains(&(case - 1)) {
                    continue;
                }
                (cx.progress)(case - 1);
                r.cases += 1;
                r.validated += 1;
                r.transitions += h.len() as u64;
                r.states += h.len() as u64 + 1;
                distinct.insert(h.iter().map(|o| std::mem::discriminant(o)).collect::<Vec<_>>());
                if h.iter().any(|o| matches!(o, HOp::Drop(0))) {
                    *r.counters.entry("histories_that_drop_the_original_handle".into()).or_default() += 1;
                }
                let res = catch_unwind(AssertUnwindSafe(|| run_history(kind, &h)));
                let bad = match res {
                    Ok(Ok(())) => None,
                    Ok(Err(m)) => Some(m),
                    Err(e) => Some(format!("panic: {}", cvh::e1::panic_msg(e))),
                };
                if let Some(m) = bad {
                    mism(&mut r, "rec-life", name, format!("kind={} history={:?}", if kind == 0 { "recursive()" } else { "declare/define" }, h), "", m);
                }
                if r.samples.len() < 4 && h.len() == maxlen && h.iter().any(|o| matches!(o, HOp::Drop(0))) {
                    r.samples.push(format!("{} {:?}", if kind == 0 { "recursive()" } else { "declare/define" }, h));
                }
            }
        }
    }
    r.distinct_outcomes = distinct.len() as u64;
    r.desc = format!("life-cycle histories of a defined recursive parser (R = '(' R ')' | 'a'; built by recursive() and by declare/define): every sequence of <= {} operations from clone(h) / boxed(h) / drop(h) / parse(h, w), w in {:?}, <= 4 handles, ending in a parse; every parse result equals a fresh parser's", maxlen, LIFE_INPUTS);
    r
}

// ---- depth points and the second definition ------------------------------------------------------------------

fn nested(depth: usize, close: usize) -> String {
    let mut s = String::with_capacity(2 * depth + 1);
    for _ in 0..depth {
        s.push('(');
    }
    s.push('a');
    for _ in 0..close {
        s.push(')');
    }
    s
}

pub fn run_depth(name: &str, depths: &[usize], cx: &ShardCtx) -> UnitResult {
    let mut r = UnitResult { name: name.to_string(), exhaustive: false, ..Default::default() };
    type EP<'a> = extra::Err<chumsky::error::Cheap>;
    let mut case = 0usize;
    for &d in depths {
        for form in 0..10u8 {
            let me = case % cx.nshards == cx.shard;
            case += 1;
            if !me || cx.skip.contains(&(case - 1)) {
                continue;
            }
            (cx.progress)(case - 1);
            r.cases += 1;
            r.validated += 1;
            r.states += d as u64;
            r.transitions += 2 * d as u64 + 1;
            let ok_in = nested(d, d);
            let bad_in = nested(d, d.saturating_sub(1));
            // outputs are flat (a depth counter) so that neither the reference nor Drop recursion is measured
            let res: Result<(Option<usize>, bool, bool, bool), String> = catch_unwind(AssertUnwindSafe(|| match form {
                0 => {
                    let p = recursive::<&str, usize, EP, _, _>(|r| r.delimited_by(just('('), just(')')).map(|n: usize| n + 1).or(just('a').to(0usize)));
                    (p.parse(ok_in.as_str()).into_output(), p.check(ok_in.as_str()).has_output(), d == 0 || p.parse(bad_in.as_str()).has_errors(), d == 0 || p.check(bad_in.as_str()).has_errors())
                }
                1 => {
                    let mut p = Recursive::declare();
                    p.define(p.clone().delimited_by(just::<_, &str, EP>('('), just(')')).map(|n: usize| n + 1).or(just('a').to(0usize)));
                    (p.parse(ok_in.as_str()).into_output(), p.check(ok_in.as_str()).has_output(), d == 0 || p.parse(bad_in.as_str()).has_errors(), d == 0 || p.check(bad_in.as_str()).has_errors())
                }
                6 => {
                    // the self-reference is used through a type-erased handle (`handle.boxed()`): the recursion goes through
                    // the handle's dynamically dispatched entry points
                    let p = recursive::<&str, usize, EP, _, _>(|r| {
                        let r = r.boxed();
                        r.delimited_by(just('('), just(')')).map(|n: usize| n + 1).or(just('a').to(0usize))
                    });
                    (p.parse(ok_in.as_str()).into_output(), p.check(ok_in.as_str()).has_output(), d == 0 || p.parse(bad_in.as_str()).has_errors(), d == 0 || p.check(bad_in.as_str()).has_errors())
                }
                7 => {
                    let mut p = Recursive::declare();
                    p.define(p.clone().boxed().delimited_by(just::<_, &str, EP>('('), just(')')).map(|n: usize| n + 1).or(just('a').to(0usize)));
                    (p.parse(ok_in.as_str()).into_output(), p.check(ok_in.as_str()).has_output(), d == 0 || p.parse(bad_in.as_str()).has_errors(), d == 0 || p.check(bad_in.as_str()).has_errors())
                }
                8 => {
                    // the self-reference behind an Rc (the wrapper impls forward by value)
                    let p = recursive::<&str, usize, EP, _, _>(|r| {
                        let r = std::rc::Rc::new(r);
                        r.delimited_by(just('('), just(')')).map(|n: usize| n + 1).or(just('a').to(0usize))
                    });
                    (p.parse(ok_in.as_str()).into_output(), p.check(ok_in.as_str()).has_output(), d == 0 || p.parse(bad_in.as_str()).has_errors(), d == 0 || p.check(bad_in.as_str()).has_errors())
                }
                9 => {
                    // two mutually recursive declared parsers, each referring to the other through a boxed handle
                    let mut a = Recursive::declare();
                    let mut b = Recursive::declare();
                    a.define(b.clone().boxed().delimited_by(just::<_, &str, EP>('('), just(')')).map(|n: usize| n + 1).or(just('a').to(0usize)));
                    b.define(a.clone().boxed().map(|n: usize| n));
                    (a.parse(ok_in.as_str()).into_output(), a.check(ok_in.as_str()).has_output(), d == 0 || a.parse(bad_in.as_str()).has_errors(), d == 0 || a.check(bad_in.as_str()).has_errors())
                }
                2 => {
                    // Pratt: prefix nesting  ----a
                    let p = just::<_, &str, EP>('a').to(0usize).pratt((prefix(1, just('-'), |_, n: usize, _| n + 1),));
                    let ok: String = "-".repeat(d) + "a";
                    let bad: String = "-".repeat(d.max(1));
                    (p.parse(ok.as_str()).into_output(), p.check(ok.as_str()).has_output(), p.parse(bad.as_str()).has_errors(), p.check(bad.as_str()).has_errors())
                }
                4 => {
                    // Pratt: prefix operator with binding power 0
                    let p = just::<_, &str, EP>('a').to(0usize).pratt((prefix(0, just('-'), |_, n: usize, _| n + 1),));
                    let ok: String = "-".repeat(d) + "a";
                    let bad: String = "-".repeat(d.max(1));
                    (p.parse(ok.as_str()).into_output(), p.check(ok.as_str()).has_output(), p.parse(bad.as_str()).has_errors(), p.check(bad.as_str()).has_errors())
                }
                5 => {
                    // Pratt: right-associative infix with binding power 0, next to a left-associative one
                    let p = just::<_, &str, EP>('a').to(0usize).pratt((infix(right(0), just('^'), |_: usize, _, r: usize, _| r + 1), infix(left(1), just('+'), |l: usize, _, _r: usize, _| l)));
                    let ok: String = "a^".repeat(d) + "a";
                    let bad: String = "a^".repeat(d.max(1)) + "^";
                    (p.parse(ok.as_str()).into_output(), p.check(ok.as_str()).has_output(), p.parse(bad.as_str()).has_errors(), p.check(bad.as_str()).has_errors())
                }
                _ => {
                    // Pratt: right-associative infix nesting a^a^a...
                    let p = just::<_, &str, EP>('a').to(0usize).pratt((infix(right(1), just('^'), |_: usize, _, r: usize, _| r + 1),));
                    let ok: String = "a^".repeat(d) + "a";
                    let bad: String = "a^".repeat(d.max(1)) + "^";
                    (p.parse(ok.as_str()).into_output(), p.check(ok.as_str()).has_output(), p.parse(bad.as_str()).has_errors(), p.check(bad.as_str()).has_errors())
                }
            }))
            .map_err(|e| cvh::e1::panic_msg(e));
            let fname = ["recursive()", "declare/define", "pratt prefix", "pratt right infix", "pratt prefix power 0", "pratt right infix power 0", "recursive() with a boxed self-reference", "declare/define with a boxed self-reference", "recursive() with the self-reference behind an Rc", "mutually recursive declared parsers through boxed handles"][form as usize];
            match res {
                Err(m) => mism(&mut r, "rec-depth", name, format!("{fname} depth {d}"), "", format!("panic: {m}")),
                Ok((o, c, be, bce)) => {
                    if o != Some(d) || !c {
                        mism(&mut r, "rec-depth", name, format!("{fname} depth {d}"), "", format!("well-nested input: parse gave {:?} (expected depth {d}), check accepted={c}", o));
                    } else if !be || !bce {
                        mism(&mut r, "rec-depth", name, format!("{fname} depth {d}"), "", "ill-nested input (one closer / operand missing) was not rejected".into());
                    }
                }
            }
            if r.samples.len() < 4 && form == 0 {
                r.samples.push(format!("{fname}: {} levels of nesting, parse and check, well-nested and with the last closer missing", d));
            }
        }
    }
    r.distinct_outcomes = r.cases;
    r.desc = format!("nesting depth points {:?} x (recursive(), declare/define, the same with the self-reference boxed / behind an Rc / mutually through boxed handles, Pratt prefix and right-assoc infix with binding powers 1 and 0): parse and check of the well-nested input return the depth, the ill-nested input is rejected, no stack overflow (an overflow kills the worker and is attributed to the case). These are points, not an enumeration of all depths", depths);
    r
}

pub fn run_define_twice(name: &str, cx: &ShardCtx) -> UnitResult {
    let mut r = UnitResult { name: name.to_string(), exhaustive: true, ..Default::default() };
    r.desc = "defining a declared parser a second time (directly, through a clone, after a parse) panics and the message names the definition site".into();
    if cx.shard != 0 {
        return r;
    }
    type EP<'a> = extra::Err<chumsky::error::Cheap>;
    for variant in 0..3 {
        r.cases += 1;
        r.validated += 1;
        r.states += 3;
        r.transitions += 2;
        let site = std::cell::Cell::new(0u32);
        let res = catch_unwind(AssertUnwindSafe(|| {
            let mut p = Recursive::<Indirect<&str, char, EP>>::declare();
            p.define(just('a'));
            match variant {
                0 => { site.set(line!()); p.define(just('b')) }
                1 => { let mut q = p.clone(); site.set(line!()); q.define(just('a')) }
                _ => { p.parse("a").into_output(); site.set(line!()); p.define(just('a')) }
            }
            p.parse("b").into_output()
        }));
        let line = site.get();
        match res {
            Ok(o) => mism(&mut r, "rec-define", name, format!("variant {variant}"), "", format!("a second define() was accepted silently (parse(\"b\") = {:?})", o)),
            Err(e) => {
                let m = cvh::e1::panic_msg(e);
                if !(m.contains("defined once") && m.contains(file!()) && m.contains(&format!(":{}:", line))) {
                    mism(&mut r, "rec-define", name, format!("variant {variant}"), "", format!("panic message does not name the definition site {}:{}: {m}", file!(), line));
                }
                if r.samples.len() < 3 {
                    r.samples.push(format!("second define (variant {variant}) refused: {m}"));
                }
            }
        }
    }
    // A refused second definition has no effect: every handle (the original, a clone made before, a clone made
    // after) still parses exactly like a freshly built parser with the FIRST definition; same for a pair of
    // mutually recursive declared parsers of which one is redefined.
    type ER<'a> = extra::Err<Rich<'a, char>>;
    type RP<'a> = Recursive<Indirect<'a, 'a, &'a str, String, ER<'a>>>;
    fn def1<'a>(r: RP<'a>) -> impl Parser<'a, &'a str, String, ER<'a>> + Clone {
        r.delimited_by(just('('), just(')')).map(|s| format!("({s})")).or(just('a').to("a".to_string()))
    }
    fn def2<'a>(r: RP<'a>) -> impl Parser<'a, &'a str, String, ER<'a>> + Clone {
        r.delimited_by(just('['), just(']')).map(|s| format!("[{s}]")).or(just('b').to("b".to_string()))
    }
    let alphabet = ['a', 'b', '(', ')', '[', ']'];
    let mut inputs = vec![String::new()];
    let mut frontier = vec![String::new()];
    for _ in 0..4 {
        let mut next = vec![];
        for w in &frontier {
            for c in alphabet {
                let mut x = w.clone();
                x.push(c);
                next.push(x);
            }
        }
        inputs.extend(next.iter().cloned());
        frontier = next;
    }
    fn obs<'a>(p: &RP<'a>, w: &'a str) -> String {
        format!("{:?} / {:?}", p.parse(w).into_output_errors(), p.check(w).into_errors())
    }
    let mut outcomes = HashSet::new();
    for who in 0..2 {
        for when in 0..2 {
            for mutual in [false, true] {
                let mut fresh: RP = Recursive::declare();
                fresh.define(def1(fresh.clone()));
                let mut p: RP = Recursive::declare();
                let mut other: RP = Recursive::declare();
                if mutual {
                    // p = '(' other ')' | 'a', other = p
                    p.define(def1(other.clone()));
                    other.define(p.clone());
                } else {
                    p.define(def1(p.clone()));
                }
                let mut before = p.clone();
                if when == 1 {
                    let _ = p.parse("(a)");
                }
                let refused = catch_unwind(AssertUnwindSafe(|| {
                    if who == 0 {
                        let d = def2(p.clone());
                        p.define(d)
                    } else {
                        let d = def2(before.clone());
                        before.define(d)
                    }
                }))
                .is_err();
                let case = format!("second define by {} {} ({})", if who == 0 { "the original" } else { "a clone" }, if when == 1 { "after a parse" } else { "before any parse" }, if mutual { "mutually recursive pair" } else { "self-recursive" });
                r.cases += 1;
                if !refused {
                    mism(&mut r, "rec-define", name, case.clone(), "", "a second define() was accepted silently".into());
                    continue;
                }
                let after = p.clone();
                for w in &inputs {
                    let want = obs(&fresh, w);
                    outcomes.insert(want.clone());
                    for (hn, h) in [("original", &p), ("clone made before", &before), ("clone made after", &after)] {
                        r.cases += 1;
                        r.validated += 1;
                        r.transitions += 1;
                        let got = catch_unwind(AssertUnwindSafe(|| obs(h, w))).unwrap_or_else(|e| format!("panic: {}", cvh::e1::panic_msg(e)));
                        if got != want {
                            mism(&mut r, "rec-define", name, case.clone(), w, format!("after the refused second definition, {hn} gives {got}, the first definition gives {want}"));
                        }
                    }
                }
            }
        }
    }
    r.states += inputs.len() as u64 * 8;
    r.distinct_outcomes = 3 + outcomes.len() as u64;
    r.desc = format!("defining a declared parser a second time (directly, through a clone, after a parse) panics and the message names the definition site; after the refusal (8 histories: by the original or a clone, before or after a parse, self- or mutually recursive) every handle still equals the first definition on all {} strings over \"ab()[]\" of length <= 4", inputs.len());
    r
}

pub fn run(unit: &str, tier: Tier, cx: &ShardCtx) -> UnitResult {
    let q = tier == Tier::Quick;
    match unit {
        "leftrec" => run_leftrec(unit, if q { 7 } else { 9 }, cx),
        "memo-shared-by-clone" => run_shared_memo(unit, if q { 6 } else { 8 }, cx),
        "rec-erased-handles" => run_erased(unit, if q { 7 } else { 8 }, cx),
        "memo-context-errors" => run_ctx_memo(unit, if q { 6 } else { 7 }, if q { 11 } else { 13 }, cx),
        "rec-templates" => run_templates(unit, if q { 8 } else { 10 }, cx),
        "rec-lifecycle" => run_lifecycle(unit, if q { 4 } else { 5 }, cx),
        "rec-depth" => {
            let mut d: Vec<usize> = vec![0, 1, 2, 10, 100, 1_000, 10_000, 100_000, 1_000_000];
            if !q {
                d.extend((3..=20).map(|k| 1usize << k));
                d.sort();
                d.dedup();
            }
            run_depth(unit, &d, cx)
        }
        "rec-define-twice" => run_define_twice(unit, cx),
        _ => panic!("unknown unit {unit}"),
    }
}

pub fn replay(v: &Value) -> Result<Option<String>, String> {
    // these units are small: replay = re-run the whole unit single-sharded and report its first mismatch
    let unit = v["unit"].as_str().ok_or("no unit")?.to_string();
    let tier = if v["tier"].as_str() == Some("thorough") { Tier::Thorough } else { Tier::Quick };
    let progress = |_: usize| {};
    let cx = ShardCtx { shard: 0, nshards: 1, known: cvm::sem::Sw::NONE, skip: vec![], progress: &progress };
    let r = run(&unit, tier, &cx);
    let want_case = v["case"].as_str().unwrap_or("");
    let want_in = v["input"].as_str().unwrap_or("");
    Ok(r.mismatches.iter().find(|m| m["case"] == want_case && m["input"] == want_in).or(r.mismatches.first()).map(|m| format!("{} on {:?}: {}", m["case"], m["input"], m["detail"].as_str().unwrap_or(""))))
}
