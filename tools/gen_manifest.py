#!/usr/bin/env python3
"""Regenerate /verif/MANIFEST.json from the table below (kept in one place so it stays valid)."""
import json, subprocess, sys, os

ROOT = os.path.dirname(os.path.dirname(os.path.abspath(__file__)))

# property id -> (engine, technique, level text, level note, design ref)
CLAIMED = {
    "C01": ("e1-conformance",
            "bounded exhaustive enumeration of grammar trees x inputs, every case replayed on the implementation and compared with a reference PEG model",
            "Every combinator tree of class K01 (primitives, sequence, ordered choice, option, look-ahead, map/filter/try_map, groups, choices in tuple/Vec/array form, basic repetition) up to the node bound, on every input over {a,b,c} up to the length bound, through parse() and check(), on &str (ASCII and multi-byte rendering) and &[char]: acceptance, output value and the extent consumed by every sub-parser on the surviving path equal the reference PEG evaluator's. Exhaustive within the bounds stated in the evidence file; nothing is sampled.",
            "Trusted: the reference evaluator cvm::sem (no chumsky code), the fixed user closures named in the AST, rustc. Every node is .boxed(); the statically typed sub-enumeration is listed separately when present.",
            "DESIGN.md section 4, C01"),
}

NOT_YET = {
}

def main():
    props = [json.loads(l) for l in open(os.path.join(ROOT, "properties.jsonl"))]
    checks = []
    na = []
    for p in props:
        pid = p["id"]
        if pid in CLAIMED:
            eng, tech, text, note, ref = CLAIMED[pid]
            checks.append({
                "property_id": pid,
                "quick_cmd": f"./check {pid} --tier quick",
                "thorough_cmd": f"./check {pid} --tier thorough",
                "evidence_file": f"/verif/evidence/{pid}.json",
                "replay_cmd_template": "./check --replay {path}",
                "engine": eng,
                "level_claimed": {"category": "model_checking", "text": text, "design_ref": ref},
                "level_note": note,
                "technique": tech,
            })
        else:
            na.append({"property_id": pid, "reason": NOT_YET.get(pid, "check not built yet in this session (work in progress; see DESIGN.md section 4 for the plan)")})
    engines = [
        {"name": "e1-conformance", "path": "harness/src/e1.rs", "serves_properties": sorted(k for k, v in CLAIMED.items() if v[0] == "e1-conformance"),
         "kind_free_text": "bounded exhaustive grammar x input enumeration; each case evaluated by the reference model (model/src/sem.rs) and replayed on the real parser (parse and check); worker subprocesses with crash attribution"},
    ]
    for name, path, txt in [
        ("e2-cursor-machine", "harness/src/e2.rs", "explicit-state BFS over the input-cursor machine; every edge replayed on the real InputRef"),
        ("e3-schedules", "harness/src/e3.rs", "shuttle DFS over all interleavings of threads sharing one parser, token pulls as scheduling points"),
        ("e4-histories", "harness/src/e4.rs", "all operation histories up to a length over handles x inputs, differential against a fresh parser"),
        ("pratt", "harness/src/pratt.rs", "all operator tables x all token strings against a textbook binding-power reference"),
        ("text", "harness/src/text.rs", "all strings over a small alphabet against independent recognisers"),
    ]:
        served = sorted(k for k, v in CLAIMED.items() if v[0] == name)
        if served:
            engines.append({"name": name, "path": path, "serves_properties": served, "kind_free_text": txt})
    m = {
        "version": 1,
        "setup_cmd": "cd /verif && CARGO_NET_OFFLINE=true cargo build --offline -p vcheck",
        "hooks": {
            "guard": "chumsky_verif",
            "enable": "no source hooks are needed: the harness observes through public traits (Input wrappers, Inspector, map_with probes); the cfg name is reserved and unused",
            "baseline_off_cmd": "cd /repo && cargo test --workspace --no-fail-fast --offline",
            "source_commits": [],
            "add_only": True,
        },
        "engines": engines,
        "checks": checks,
        "not_applicable": na,
        "notes": "Checks rebuild the harness (path dependency on /repo) before every run. known_findings.json lists known:/fixed: entries; see DESIGN.md section 6.",
    }
    json.dump(m, open(os.path.join(ROOT, "MANIFEST.json"), "w"), indent=1)
    print("MANIFEST.json:", len(checks), "checks,", len(na), "not claimed")

if __name__ == "__main__":
    main()
