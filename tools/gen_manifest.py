#!/usr/bin/env python3
"""Regenerate /verif/MANIFEST.json from the table below (kept in one place so it stays valid)."""
import json, subprocess, sys, os

ROOT = os.path.dirname(os.path.dirname(os.path.abspath(__file__)))

# property id -> (engine, technique, level text, level note, design ref)
E1T = 'bounded exhaustive enumeration of grammar trees x inputs (explicit-state style: every enumerated case is evaluated by the reference model and replayed on the implementation through parse() and check())'
NOTE = 'Trusted: the reference evaluator cvm::sem (no chumsky code) with the pinned conventions of DESIGN.md section 2, the fixed user closures named in the grammar AST, rustc. Every node is .boxed() unless a unit says otherwise. Bounds actually completed are in the evidence file.'
CLAIMED = {
    'C01': ("e1-conformance", E1T, "Every combinator tree of class K01 (primitives, sequence, ordered choice, option, look-ahead, map/filter/try_map, groups, choices in tuple/Vec/array form, basic repetition) up to the node bound, on every input over {a,b,c} up to the length bound, on &str (ASCII and multi-byte rendering) and &[char]: acceptance, output value and the extent consumed by every sub-parser on the surviving path equal the reference PEG evaluator's. Exhaustive within the bounds stated in the evidence file; nothing is sampled.", NOTE, 'DESIGN.md section 4, C01'),
    'C02': ("e1-conformance", E1T, "Every repeated()/separated_by() template: item x separator x all bounds at_least/at_most/exactly in 0..4 (also supplied through configure()) x allow_leading/allow_trailing x every sink (Vec, String, count, bare, enumerate, collect_exactly [_;0..3], foldl, foldr, foldl_with, foldr_with), each followed by a capture of the unconsumed rest, on every input over {a,b,','} up to the length bound: acceptance, item sequence, fold order and the position left behind equal the reference model's. The two documented-contradictory separator corners are counted and skipped. Exhaustive within the bounds stated in the evidence file; nothing is sampled.", NOTE, 'DESIGN.md section 4, C02'),
    'C03': ("e1-conformance", E1T, "For every grammar of the K01, extended (recovery/validate) and K02 classes and every input up to the bound (which contains every one-token extension of every shorter accepted input): acceptance equals the model's whole-input match; the ParseResult invariants (no output => >=1 error, errors => into_result is Err, error-free => output, has_errors/errors()/output() consistent) hold for parse and check; p.lazy() accepts exactly when the model matches a prefix and returns that prefix's output. Exhaustive within the bounds stated in the evidence file; nothing is sampled.", NOTE, 'DESIGN.md section 4, C03'),
    'C04': ("e1-conformance", E1T, '(i) check() and parse() agree on acceptance, the complete error list and the final inspector state for every grammar of the K01, K02, K04 (recovery, validation, labels, slices), state and context classes on every input; (ii) every K04 grammar that contains an output-eliding combinator (ignore_then, then_ignore, ignored, to, to_slice, to_span, delimited_by, padded_by, bare repeated/separated_by) gives exactly the same outputs and errors as its value-building rewriting, on every input (differential, no model involved). Exhaustive within the bounds stated in the evidence file; nothing is sampled.', NOTE, 'DESIGN.md section 4, C04'),
    'C05': ("e1-conformance", E1T, "For every grammar of the extended class (validate emitters and recover_with at every node position, inside choices, repetitions, separators, look-ahead) and of a focused deep emission class, on every input, with a snapshot-checkpoint inspector: when the parse has an output, errors() equals the model's surviving-path emission list in order, every state observation equals the fold over the tokens before it, and the final state equals the whole input. Exhaustive within the bounds stated in the evidence file; nothing is sampled.", NOTE, 'DESIGN.md section 4, C05'),
    'C06': ("e1-conformance", E1T, "For every grammar of the extended, core, K01 and K02 classes (content comparison skipped for grammars containing not()) and every rejected input, with EmptyErr, Cheap, Simple and Rich: the last error's span equals the model's furthest-failure span (so the three span-carrying types agree), Rich's expected set and custom reason equal the merge at that position, found is the token at the span start, spans are well formed and inside the input, and a failed parse reports at least one error. Exhaustive within the bounds stated in the evidence file; nothing is sampled.", NOTE, 'DESIGN.md section 4, C06'),
    'C07': ("e1-conformance", E1T, "For every grammar of class K07 (K01 plus to_span, to_slice, map_with span/slice, validate spans, foldl_with/foldr_with) with every node wrapped in a span probe, on &str (ASCII and multi-byte), &[char], Stream and Input::map over tokens with gapped spans: every captured span and slice equals the model's extent for that node (hence nested, ordered, empty for empty matches and between the neighbouring tokens), is well formed, lies on character boundaries, and every slice is a sub-slice of the caller's buffer at the right offset. Exhaustive within the bounds stated in the evidence file; nothing is sampled.", NOTE, 'DESIGN.md section 4, C07'),
    'C08': ("e1-conformance", E1T, "For every grammar of the extended class with recover_with(via_parser | skip_until | skip_then_retry_until) at every node position and nesting, and of a bracket class with nested_delimiters, on every input: acceptance, output (fallback values are tagged), extents, the complete list of reported errors (recovered error = the then-pending primary error, exactly one per recovery) and the primary error on failure equal the model's. Exhaustive within the bounds stated in the evidence file; nothing is sampled.", NOTE, 'DESIGN.md section 4, C08'),
    'C10': ("e1-conformance", E1T, 'The same grammars (K01 and extended classes) on the same token sequences supplied as &str (ASCII, multi-byte), &[char], Stream, BoxedStream, Input::map (contiguous and gapped spans), &[u8], IoInput, with_context and map_span: acceptance, outputs, extents and error positions all equal the one reference model after the documented re-basing of spans. Exhaustive within the bounds stated in the evidence file; nothing is sampled.', NOTE, 'DESIGN.md section 4, C10'),
    'C15': ("e1-conformance", E1T, "For every grammar of the context class (with_ctx, then_with_ctx, ignore_with_ctx, map_ctx, just(..).configure(seq from ctx), repeated().configure(exactly from ctx), try_configure with erroring configs, inside sequences, choices, options and repetitions) with a context probe at every node, on every input: acceptance, outputs and every observed context equal the model's nearest-enclosing-provider semantics. Exhaustive within the bounds stated in the evidence file; nothing is sampled.", NOTE, 'DESIGN.md section 4, C15'),
    'C17': ("e1-conformance", E1T, "(i) Differential: every core-class grammar with <= 3 nodes x every non-empty subset of its nodes wrapped in labelled / labelled().as_context() / a span-preserving map_err gives the same acceptance, outputs, number of errors and error spans as the undecorated grammar on every input. (ii) Content: for every extended-class grammar the expected set (label in place of expectations at the first token, inner expectations kept further in), as_context contexts and map_err tags of the reported errors equal the model's. Exhaustive within the bounds stated in the evidence file; nothing is sampled.", NOTE, 'DESIGN.md section 4, C17'),
    'C18': ("e1-conformance", E1T, 'For every grammar of the state class (extended class plus select and with_state) with a state probe at every node, on &str, &[char] and Stream, with a snapshot-checkpoint inspector: every observation equals the fold over exactly the tokens before that position, the final state of a successful parse equals the fold over the whole input, with_state starts from a fresh copy on every invocation and leaves the outer state untouched. Exhaustive within the bounds stated in the evidence file; nothing is sampled.', NOTE, 'DESIGN.md section 4, C18'),
    'C20': ("e1-conformance", E1T, 'For every grammar of the extended and K01 classes with EmptyErr, Cheap, Simple and Rich on every input: parse and check return (no panic inside the library, caught per case; process deaths attributed per case), and a result without output carries at least one error. Exhaustive within the bounds stated in the evidence file; nothing is sampled.', NOTE, 'DESIGN.md section 4, C20'),
}

NOT_YET = {
}


CLAIMED.update({
    "C09": ("pratt", "bounded exhaustive enumeration of operator tables x token strings; every case evaluated by a textbook binding-power reference and replayed on the implementation in three table forms",
            "Every operator table of up to 3 operators (prefix, postfix, left and right infix; 2-3 symbols, 2-3 power levels, same symbol allowed as prefix and infix, declaration order significant) on every token string over {x, ?, operators} up to the length bound: acceptance, the fully parenthesised tree, the span seen by every fold callback and the unconsumed rest equal the binding-power reference's; flattening the tree gives the consumed tokens in order; Vec<boxed op>, statically typed tuple and tuple-of-boxed-ops tables (with a boxed atom) agree; check() agrees with parse(). Tables declaring one symbol both postfix and infix are counted and skipped (unspecified). Exhaustive within the bounds in the evidence file.",
            "Trusted: the reference binding-power loop in engines/pratt (independent of chumsky), rustc.", "DESIGN.md section 4, C09"),
    "C11": ("e1-conformance", E1T + "; differential pairs (memoized vs plain) need no model",
            "(i) Differential: every core-class grammar (<= 3 nodes), every focused memo-class grammar (<= 5 nodes, multi-token leaves, repetition, choice) x EVERY non-empty subset of nodes wrapped in memoized(), and extended/K02 grammars with single/adjacent/all nodes memoized, give exactly the same outputs and complete error lists (parse and check) as the plain grammar on every input. (ii) Five left-recursive families whose recursive step is memoized (direct, through a repetition, indirect via declare/define) return a ParseResult on every string over {x,+,?} up to the bound; a stack overflow or hang kills the worker and is attributed to the case. Every node is boxed here; the statically typed form (address-keyed memo table) is a stated gap until the static engine lands.",
            NOTE, "DESIGN.md section 4, C11"),
    "C12": ("e4-histories", "bounded exhaustive enumeration of inputs per recursive template and of life-cycle operation histories; native-recursion reference recognisers",
            "Four guarded recursive templates (bracket nesting, right recursion, nested lists with separators, two mutually recursive rules), each built with recursive(), with Recursive::declare/define and through clones whose originals were dropped, on every string up to the length bound over the template's alphabet: output, check() and complete error lists equal the native-recursion (= unrolled) reference and each other. Every history of <= 4 operations clone/boxed/drop/parse over <= 4 handles gives each parse the result of a fresh parser. Nesting depth points up to 10^6 (recursive(), declare/define, Pratt prefix and right-infix) parse and check without overflow, well- and ill-nested (points, not an enumeration). A second define() (direct, via a clone, after a parse) panics naming the definition site.",
            "Trusted: the reference recognisers in engines/rec, rustc; the default stacker feature is on in the harness build.", "DESIGN.md section 4, C12"),
    "C13": ("e1-conformance", E1T + "; parsers built through Clone at every node; differential plain-vs-clone pairs",
            "Every combinator value of every K01, extended and K02-template grammar is cloned once, the original dropped, and the clone used (each combinator's own Clone impl, not Boxed's Rc clone): results equal the reference model's, and (differential) equal the plainly built parser's outputs and complete error lists on every input. Reuse across inputs in arbitrary order is exercised by every E1 unit (one parser value parses all inputs of its unit, twice: parse then check). Sharing between threads is not yet covered (stated gap until the schedule engine lands).",
            NOTE, "DESIGN.md section 4, C13"),
    "C14": ("text", "bounded exhaustive enumeration of all strings over a 19-character alphabet; independent longest-prefix recognisers",
            "Every string of length <= 4 (thorough 5) over {0 1 9 a f g Z _ space tab CR LF VT FF é ٣ - U+0085 U+2028}: int(r), digits(r) for r in {2,8,10,16,36}, ascii::ident, unicode::ident, ascii/unicode keyword (5 keywords), whitespace (also at_least(1)), inline_whitespace, newline, padded, on &str and (ASCII strings) on &[u8], plus 12 regex patterns at offsets 0 and 1: the matched prefix equals the documented language's longest prefix (std predicates, unicode-ident, the regex crate), &str and &[u8] agree, the parser's own output slice and to_slice() are the same sub-slice of the input, check() agrees with parse().",
            "Trusted: std char predicates, unicode-ident, regex crate, rustc.", "DESIGN.md section 4, C14"),
    "C16": ("nested", "bounded exhaustive enumeration of grammars x token trees; recursive reference model",
            "Every grammar of <= 5 nodes over just/any/end/empty/then/or/or_not/repeated/validate/nested_in on every token tree of <= 5 tokens (nesting depth <= 2; and <= 4 nodes on depth <= 4) with gapped spans through Input::map: the inner grammar must match its token list completely, the outer input advances by one group token, outputs with every node's span, the complete error list on success (inner emissions surfaced), the complete list on failure for backtracking-free grammars and the primary error otherwise equal the recursive reference model's; check() == parse().",
            "Trusted: the reference evaluator in engines/nested, rustc.", "DESIGN.md section 4, C16"),
    "C19": ("drops", "bounded exhaustive enumeration of grammars x inputs with registry-tracked outputs and tokens (direct invariant, no model)",
            "Every K01, extended (recovery) and K02-sink grammar and a focused fixed-size-collection class (group arrays/tuples, collect_exactly, separated_by into arrays, failing at every position) on every input over a 3-letter alphabet, on &[tracked token], parse and check: while the result is held exactly the values reachable from the returned output are live, after it is dropped none are, no value or token is dropped twice, token clones are balanced.",
            "Trusted: the registry in engines/drops (thread-local sets keyed by serial numbers), rustc.", "DESIGN.md section 4, C19"),
})

NOT_YET.update({
})

# units added after the first version of the texts above (rounds 5 and 6 of strengthening)
EXTRA = {
    "C01": " Also: a.or_not() driven through its IterParser interface for every K01 grammar a (alone and chained); one_of / none_of / just over every Seq / OrderedSeq container flavour (single token, &T, &[T], [T; N], &[T; N], Vec, LinkedList, HashSet, BTreeSet, &str, String, Range, RangeInclusive, RangeFrom) for all subsets / sequences / ranges over five letters, char and u8.",
    "C02": " Also: collect() into every Container flavour (Vec, VecDeque, LinkedList, String, HashSet, BTreeSet, maps, Box / Cell / RefCell of a container, usize, ()) against the Vec item sequence; or_not and iterable chains as item sources.",
    "C06": " Also: the context class (just(..).configure(seq), configured repetitions) with Rich errors; the failure of a nested parse merged by the furthest-wins rule.",
    "C07": " Also: the span handed to try_map on the successful path; K07 with EmptyErr and Cheap (spans do not depend on the error type); K07 on IoInput and BoxedStream; the cursor machine on 13 input kinds; Pratt fold-callback spans.",
    "C09": " Also: the same tables with binding powers spread over the whole u16 range (order-isomorphic relabelling), and tables whose operator symbols share a prefix (+ / ++).",
    "C12": " Also: the recursion handle wrapped (boxed(), Rc, Box, declared and boxed, mutually through boxed handles) inside its own definition: same language, and no overflow at the depth points.",
    "C19": " Also: long runs (inputs up to 11/13 tokens) through every sink, tracked and zero-sized values; every ContainerExactly flavour.",
    "C03": " Also: IoInput over readers answering with short reads / Interrupted (15 schedules per case); nested inputs (nested_in must consume its whole nested input unless its parser is lazy()).",
    "C04": " Also: delimited_by and emitters in the deep elision class; text parsers and regex() in every eliding formulation.",
    "C05": " Also: the same emission counts with EmptyErr and Cheap; emissions surfacing from nested inputs.",
    "C08": " Also: recovery strategies whose skip step emits; EmptyErr / Cheap error types; recovery inside / around nested inputs.",
    "C10": " Also: span_from in the cursor machine; IoInput over faulty readers; &Graphemes and IterInput units.",
    "C11": " Also: one memoized value used twice (shared through Rc, Clone::clone, Box::clone) in left-recursive grammars; recursive token-tree grammars with memoized() at six placements across nested_in.",
    "C13": " Also: a clone of a memoized parser used inside the same left-recursive grammar as its original.",
    "C15": " Also: context providers as iterable parsers and as links of iterable chains; counts of usize::MAX / 4 from the context (static and as a length prefix).",
    "C16": " Also: lazy().nested_in; recover_with nodes; recursive token-tree grammars with memoized() vs plain on all token trees.",
    "C17": " Also: secondary errors raised under as_context labels whose labelled parser later fails (complete error list with context frames).",
    "C18": " Also: closures whose verdict depends on the inspector state they see (try_map_with), inside look-aheads, options, choices and recoveries; padded(); the cursor machine.",
    "C20": " Also: token-pull budgets for 22 scaled grammar families incl. recovery on runs of unclosed delimiters (with a pull limit); counts of usize::MAX / 4 from the context; the text parsers on &Graphemes; errors replayed from the memo table under as_context (bounded number of context frames); primitive matchers over every container flavour incl. unbounded ranges (one known finding: one_of(lo..) with Rich panics on a rejected token, see known_findings.json).",
}


def main():
    for k, extra in EXTRA.items():
        eng, tech, text, note, ref = CLAIMED[k]
        CLAIMED[k] = (eng, tech, text + extra, note, ref)
    props = [json.loads(l) for l in open(os.path.join(ROOT, "properties.jsonl"))]
    checks = []
    na = []
    for p in props:
        pid = p["id"]
        if pid in CLAIMED:
            eng, tech, text, note, ref = CLAIMED[pid]
            checks.append({
                "property_id": pid,
                "quick_cmd": f"./check {pid} --tier quick",
                "thorough_cmd": f"./check {pid} --tier thorough",
                "evidence_file": f"/verif/evidence/{pid}.json",
                "replay_cmd_template": "./check --replay {path}",
                "engine": eng,
                "level_claimed": {"category": "model_checking", "text": text, "design_ref": ref},
                "level_note": note,
                "technique": tech,
            })
        else:
            na.append({"property_id": pid, "reason": NOT_YET.get(pid, "check not built yet in this session (work in progress; see DESIGN.md section 4 for the plan)")})
    engines = [
        {"name": "e1-conformance", "path": "harness/src/e1.rs", "serves_properties": sorted(k for k, v in CLAIMED.items() if v[0] == "e1-conformance"),
         "kind_free_text": "bounded exhaustive grammar x input enumeration; each case evaluated by the reference model (model/src/sem.rs) and replayed on the real parser (parse and check); worker subprocesses with crash attribution"},
    ]
    for name, path, txt in [
        ("e2-cursor-machine", "harness/src/e2.rs", "explicit-state BFS over the input-cursor machine; every edge replayed on the real InputRef"),
        ("e3-schedules", "harness/src/e3.rs", "shuttle DFS over all interleavings of threads sharing one parser, token pulls as scheduling points"),
        ("e4-histories", "engines/rec/src/lib.rs", "all operation histories up to a length over handles x inputs, differential against a fresh parser"),
        ("pratt", "engines/pratt/src/lib.rs", "all operator tables x all token strings against a textbook binding-power reference"),
        ("text", "engines/text/src/lib.rs", "all strings over a small alphabet against independent recognisers"),
        ("nested", "engines/nested/src/lib.rs", "grammars x token trees with gapped spans against a recursive reference model"),
        ("drops", "engines/drops/src/lib.rs", "grammars x inputs with registry-tracked outputs and tokens; direct drop-discipline invariant"),
    ]:
        served = sorted(k for k, v in CLAIMED.items() if v[0] == name)
        if served:
            engines.append({"name": name, "path": path, "serves_properties": served, "kind_free_text": txt})
    m = {
        "version": 1,
        "setup_cmd": "cd /verif && CARGO_NET_OFFLINE=true cargo build --offline -p vcheck",
        "hooks": {
            "guard": "chumsky_verif",
            "enable": "no source hooks are needed: the harness observes through public traits (Input wrappers, Inspector, map_with probes); the cfg name is reserved and unused",
            "baseline_off_cmd": "cd /repo && cargo test --workspace --no-fail-fast --offline",
            "source_commits": [],
            "add_only": True,
        },
        "engines": engines,
        "checks": checks,
        "not_applicable": na,
        "notes": "Checks rebuild the harness (path dependency on /repo) before every run. known_findings.json lists 14 fixed: entries (fix: commits in /repo) and one known: entry (C20, one_of over an unbounded range with Rich errors); see DESIGN.md section 6.",
    }
    json.dump(m, open(os.path.join(ROOT, "MANIFEST.json"), "w"), indent=1)
    print("MANIFEST.json:", len(checks), "checks,", len(na), "not claimed")

if __name__ == "__main__":
    main()
