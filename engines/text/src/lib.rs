//! C14 — text parsers recognise exactly their documented languages: every string over a small,
//! nasty alphabet up to a length bound, every text parser, on `&str` and (ASCII strings) `&[u8]`,
//! against independent longest-prefix recognisers written with std predicates.

use chumsky::error::{Cheap, Rich};
use chumsky::prelude::*;
use cvh::unit::{ShardCtx, Tier, UnitResult};
use serde_json::{json, Value};
use std::collections::{BTreeMap, HashSet};
use std::panic::{catch_unwind, AssertUnwindSafe};

// ---- references: Some(number of chars consumed) ---------------------------------------------------------

fn r_int(s: &[char], radix: u32) -> Option<usize> {
    match s.first() {
        Some('0') => Some(1),
        Some(c) if c.is_digit(radix) => Some(1 + s[1..].iter().take_while(|c| c.is_digit(radix)).count()),
        _ => None,
    }
}
fn r_digits(s: &[char], radix: u32) -> Option<usize> {
    let n = s.iter().take_while(|c| c.is_digit(radix)).count();
    if n >= 1 {
        Some(n)
    } else {
        None
    }
}
fn r_aident(s: &[char]) -> Option<usize> {
    match s.first() {
        Some(c) if c.is_ascii_alphabetic() || *c == '_' => Some(1 + s[1..].iter().take_while(|c| c.is_ascii_alphanumeric() || **c == '_').count()),
        _ => None,
    }
}
fn r_uident(s: &[char]) -> Option<usize> {
    match s.first() {
        Some(c) if unicode_ident::is_xid_start(*c) || *c == '_' => Some(1 + s[1..].iter().take_while(|c| unicode_ident::is_xid_continue(**c)).count()),
        _ => None,
    }
}
fn r_ws(s: &[char]) -> Option<usize> {
    Some(s.iter().take_while(|c| c.is_whitespace()).count())
}
fn r_iws(s: &[char]) -> Option<usize> {
    Some(s.iter().take_while(|c| **c == ' ' || **c == '\t').count())
}
/// the eight documented line terminators, CRLF as one
fn r_newline(s: &[char]) -> Option<usize> {
    match s.first() {
        Some('\r') => {
            if s.get(1) == Some(&'\n') {
                Some(2)
            } else {
                Some(1)
            }
        }
        Some(c) if ['\n', '\x0B', '\x0C', '\u{85}', '\u{2028}', '\u{2029}'].contains(c) => Some(1),
        _ => None,
    }
}
fn r_kw(s: &[char], k: &str, uni: bool) -> Option<usize> {
    let n = if uni { r_uident(s)? } else { r_aident(s)? };
    if s[..n].iter().collect::<String>() == k {
        Some(n)
    } else {
        None
    }
}
fn r_padded_a(s: &[char]) -> Option<usize> {
    let lead = r_ws(s).unwrap();
    match s.get(lead) {
        Some('a') => Some(lead + 1 + r_ws(&s[lead + 1..]).unwrap()),
        _ => None,
    }
}

// ---- implementation side -----------------------------------------------------------------------------------

type Ex<'a> = extra::Err<Rich<'a, char>>;
type Eb<'a> = extra::Err<Cheap>;
/// (matched slice, rest, inner-output slice if the parser itself returns one)
type SP<'a> = Boxed<'a, 'a, &'a str, (&'a str, &'a str, Option<&'a str>), Ex<'a>>;
type BPb<'a> = Boxed<'a, 'a, &'a [u8], (&'a [u8], &'a [u8], Option<&'a [u8]>), Eb<'a>>;

thread_local! {
    /// which formulation `s_unit` / `s_slice` / `b_unit` / `b_slice` build (0 = the C14 one; see `VARIANTS`)
    static VARIANT: std::cell::Cell<usize> = const { std::cell::Cell::new(0) };
}
/// C04: the same text parser in formulations that elide its output (it runs in check mode inside them) and one
/// that anchors it to the end of the input (so that `check()`'s acceptance depends on how much it consumed)
pub const VARIANTS: [&str; 7] = ["map_with(slice)", "to_slice()", "ignored()", "ignore_then(empty())", "empty().then_ignore(p)", "to(())", "then(end()) [must match the whole input]"];

macro_rules! variants {
    ($p:expr, $v:expr, $I:ty, $E:ty) => {{
        let p = $p;
        let rest = || any::<$I, $E>().repeated().to_slice();
        match $v {
            1 => p.to_slice().then(rest()).map(|(m, r)| (m, r, None)).boxed(),
            2 => p.ignored().map_with(|_, e| e.slice()).then(rest()).map(|(m, r)| (m, r, None)).boxed(),
            3 => p.ignore_then(empty()).map_with(|_, e| e.slice()).then(rest()).map(|(m, r)| (m, r, None)).boxed(),
            4 => empty().then_ignore(p).map_with(|_, e| e.slice()).then(rest()).map(|(m, r)| (m, r, None)).boxed(),
            5 => p.to(()).map_with(|_, e| e.slice()).then(rest()).map(|(m, r)| (m, r, None)).boxed(),
            _ => p.map_with(|_, e| e.slice()).then(end().to_slice()).map(|(m, r)| (m, r, None)).boxed(),
        }
    }};
}

fn s_unit<'a, O: 'a>(p: impl Parser<'a, &'a str, O, Ex<'a>> + Clone + 'a) -> SP<'a> {
    match VARIANT.with(|v| v.get()) {
        0 => p.to_slice().then(any().repeated().to_slice()).map(|(m, r)| (m, r, None)).boxed(),
        v => variants!(p, v, &'a str, Ex<'a>),
    }
}
fn s_slice<'a>(p: impl Parser<'a, &'a str, &'a str, Ex<'a>> + Clone + 'a) -> SP<'a> {
    match VARIANT.with(|v| v.get()) {
        0 => p.map_with(|o, e| (o, e.slice())).then(any().repeated().to_slice()).map(|((o, m), r)| (m, r, Some(o))).boxed(),
        v => variants!(p, v, &'a str, Ex<'a>),
    }
}
fn b_unit<'a, O: 'a>(p: impl Parser<'a, &'a [u8], O, Eb<'a>> + Clone + 'a) -> BPb<'a> {
    match VARIANT.with(|v| v.get()) {
        0 => p.to_slice().then(any().repeated().to_slice()).map(|(m, r)| (m, r, None)).boxed(),
        v => variants!(p, v, &'a [u8], Eb<'a>),
    }
}
fn b_slice<'a>(p: impl Parser<'a, &'a [u8], &'a [u8], Eb<'a>> + Clone + 'a) -> BPb<'a> {
    match VARIANT.with(|v| v.get()) {
        0 => p.map_with(|o, e| (o, e.slice())).then(any().repeated().to_slice()).map(|((o, m), r)| (m, r, Some(o))).boxed(),
        v => variants!(p, v, &'a [u8], Eb<'a>),
    }
}

type RefFn = Box<dyn Fn(&[char]) -> Option<usize>>;

pub struct Cfgs<'a> {
    pub strs: Vec<(String, SP<'a>, RefFn)>,
    pub bytes: Vec<(String, BPb<'a>, RefFn)>,
}

pub const RADICES: [u32; 5] = [2, 8, 10, 16, 36];
pub const REGEXES: [&str; 12] = ["[a-f]+", "a|af", "af|a", "[0-9]*", "a*?", "(?i)z+", "\\s+", "[^a]", "\\w+", ".", "é+", "\\b_"];

pub fn configs<'a>() -> Cfgs<'a> {
    let mut strs: Vec<(String, SP<'a>, RefFn)> = vec![];
    let mut bytes: Vec<(String, BPb<'a>, RefFn)> = vec![];
    for r in RADICES {
        strs.push((format!("int({r})"), s_slice(text::int(r)), Box::new(move |s| r_int(s, r))));
        strs.push((format!("digits({r})"), s_unit(text::digits(r)), Box::new(move |s| r_digits(s, r))));
        bytes.push((format!("int({r})"), b_slice(text::int(r)), Box::new(move |s| r_int(s, r))));
        bytes.push((format!("digits({r})"), b_unit(text::digits(r)), Box::new(move |s| r_digits(s, r))));
    }
    strs.push(("ascii::ident".into(), s_slice(text::ascii::ident()), Box::new(r_aident)));
    strs.push(("unicode::ident".into(), s_slice(text::unicode::ident()), Box::new(r_uident)));
    strs.push(("whitespace".into(), s_unit(text::whitespace()), Box::new(r_ws)));
    strs.push(("whitespace.at_least(1)".into(), s_unit(text::whitespace().at_least(1)), Box::new(|s| r_ws(s).filter(|n| *n >= 1))));
    strs.push(("inline_whitespace".into(), s_unit(text::inline_whitespace()), Box::new(r_iws)));
    strs.push(("newline".into(), s_unit(text::newline()), Box::new(r_newline)));
    strs.push(("just(a).padded()".into(), s_unit(just('a').padded()), Box::new(r_padded_a)));
    for k in ["a", "af", "_9", "Z"] {
        strs.push((format!("ascii::keyword({k})"), s_slice(text::ascii::keyword(k)), Box::new(move |s| r_kw(s, k, false))));
        strs.push((format!("unicode::keyword({k})"), s_slice(text::unicode::keyword(k)), Box::new(move |s| r_kw(s, k, true))));
    }
    strs.push(("unicode::keyword(é)".into(), s_slice(text::unicode::keyword("é")), Box::new(|s| r_kw(s, "é", true))));
    strs.push(("unicode::keyword(aé)".into(), s_slice(text::unicode::keyword("aé")), Box::new(|s| r_kw(s, "aé", true))));

    bytes.push(("ascii::ident".into(), b_slice(text::ascii::ident()), Box::new(r_aident)));
    bytes.push(("unicode::ident".into(), b_slice(text::unicode::ident()), Box::new(r_uident)));
    bytes.push(("whitespace".into(), b_unit(text::whitespace()), Box::new(r_ws)));
    bytes.push(("inline_whitespace".into(), b_unit(text::inline_whitespace()), Box::new(r_iws)));
    bytes.push(("just(a).padded()".into(), b_unit(just(b'a').padded()), Box::new(r_padded_a)));
    for k in ["a", "af", "_9", "Z"] {
        let kb: &'static [u8] = k.as_bytes();
        bytes.push((format!("ascii::keyword({k})"), b_slice(text::ascii::keyword(kb)), Box::new(move |s| r_kw(s, k, false))));
    }
    Cfgs { strs, bytes }
}

fn run_s<'a>(p: &SP<'a>, s: &'a str) -> Result<Option<usize>, String> {
    catch_unwind(AssertUnwindSafe(|| {
        let o = p.parse(s).into_output();
        let c = p.check(s).has_output();
        if c != o.is_some() {
            return Err(format!("check() accepted={c}, parse() accepted={}", o.is_some()));
        }
        match o {
            None => Ok(None),
            Some((m, rest, inner)) => {
                if m.as_ptr() != s.as_ptr() || rest.as_ptr() as usize != s.as_ptr() as usize + m.len() || m.len() + rest.len() != s.len() {
                    return Err("matched slice / rest are not the corresponding sub-slices of the input".into());
                }
                if let Some(i) = inner {
                    if i.as_ptr() != m.as_ptr() || i.len() != m.len() {
                        return Err(format!("the parser's own output slice {:?} is not the matched slice {:?}", i, m));
                    }
                }
                Ok(Some(m.len()))
            }
        }
    }))
    .unwrap_or_else(|e| Err(format!("panic: {}", cvh::e1::panic_msg(e))))
}
fn run_b<'a>(p: &BPb<'a>, s: &'a [u8]) -> Result<Option<usize>, String> {
    catch_unwind(AssertUnwindSafe(|| {
        let o = p.parse(s).into_output();
        let c = p.check(s).has_output();
        if c != o.is_some() {
            return Err(format!("check() accepted={c}, parse() accepted={}", o.is_some()));
        }
        match o {
            None => Ok(None),
            Some((m, rest, inner)) => {
                if m.as_ptr() != s.as_ptr() || rest.as_ptr() as usize != s.as_ptr() as usize + m.len() || m.len() + rest.len() != s.len() {
                    return Err("matched slice / rest are not the corresponding sub-slices of the input".into());
                }
                if let Some(i) = inner {
                    if i.as_ptr() != m.as_ptr() || i.len() != m.len() {
                        return Err("the parser's own output slice is not the matched slice".into());
                    }
                }
                Ok(Some(m.len()))
            }
        }
    }))
    .unwrap_or_else(|e| Err(format!("panic: {}", cvh::e1::panic_msg(e))))
}

// ('٣' U+0663, 'Ł' U+0141, 'Ċ' U+010A: multi-byte characters whose low byte is an ASCII letter / LF)
// U+00A0 / U+3000: White_Space characters that are neither inline whitespace nor line terminators
pub const ALPHABET: &str = "019afgZ_ \t\r\n\x0B\x0Cé٣-\u{85}\u{2028}\u{2029}\u{A0}\u{3000}ŁĊ";

pub struct TextUnit {
    pub name: String,
    pub len: usize,
}

pub fn nth_string(alpha: &[char], mut idx: usize) -> Vec<char> {
    // strings in length-lexicographic order: idx 0 = "", then all of length 1, ...
    let n = alpha.len();
    let mut len = 0;
    let mut block = 1usize;
    while idx >= block {
        idx -= block;
        block *= n;
        len += 1;
    }
    let mut v = vec![alpha[0]; len];
    for i in (0..len).rev() {
        v[i] = alpha[idx % n];
        idx /= n;
    }
    v
}
pub fn count_strings(n: usize, l: usize) -> usize {
    (0..=l).map(|k| n.pow(k as u32)).sum()
}

struct Re {
    name: String,
    at0: SP<'static>,
    at1: SP<'static>,
    at0b: BPb<'static>,
    oracle: regex::Regex,
}

fn check_string(cs: &[char], cfgs: &Cfgs<'static>, res: &[Re], r: &mut UnitResult, unit: &str, distinct: &mut HashSet<u64>, variant: usize) {
    use std::hash::{Hash, Hasher};
    let s: String = cs.iter().collect();
    // the parsers borrow the input for 'static (they are built once per worker); the buffers are leaked
    // per string only for the duration of this function via a scoped transmute-free trick: Box::leak + reclaim
    let leaked: &'static str = Box::leak(s.clone().into_boxed_str());
    let blen = |n: Option<usize>| n.map(|n| cs[..n].iter().map(|c| c.len_utf8()).sum::<usize>());
    let ascii = s.is_ascii();
    let total_bytes = s.len();
    let mut note = |r: &mut UnitResult, name: &str, kind: &str, got: Result<Option<usize>, String>, want: Option<usize>| {
        // the anchored formulation accepts iff the parser matches the whole input
        let want = if variant == VARIANTS.len() - 1 { want.filter(|n| *n == total_bytes) } else { want };
        let kind_s;
        let kind = if variant == 0 { kind } else { kind_s = format!("{kind} as {}", VARIANTS[variant]); kind_s.as_str() };
        r.cases += 1;
        r.validated += 1;
        r.states += 1;
        r.transitions += want.unwrap_or(0) as u64 + 1;
        if want.is_some() {
            *r.counters.entry("accepted_prefixes".into()).or_default() += 1;
        } else {
            *r.counters.entry("rejections".into()).or_default() += 1;
        }
        let mut h = std::collections::hash_map::DefaultHasher::new();
        (name, kind, want, cs.len() <= 2).hash(&mut h);
        if cs.len() <= 2 {
            cs.hash(&mut h);
        }
        if distinct.len() < 100_000 {
            distinct.insert(h.finish());
        }
        let bad = match &got {
            Err(m) => Some(m.clone()),
            Ok(g) if *g != want => Some(format!("matched {:?} bytes", g)),
            _ => None,
        };
        if let Some(why) = bad {
            r.mismatch_count += 1;
            *r.counters.entry(format!("mismatch:{name}/{kind}")).or_default() += 1;
            if r.mismatches.iter().filter(|m| m["parser"] == name && m["kind"] == kind).count() < 2 && r.mismatches.len() < 30 {
                r.mismatches.push(json!({
                    "engine": "text", "unit": unit, "parser": name, "kind": kind, "input": s,
                    "categories": ["text_language"], "detail": format!("{name} on {kind} {:?}: {why}; the documented language matches {:?} bytes", s, want), "explained_by": [],
                }));
            }
        }
    };
    for (name, p, rf) in &cfgs.strs {
        let want = blen(rf(cs));
        note(r, name, "&str", run_s(p, leaked), want);
    }
    if ascii {
        let b: &'static [u8] = leaked.as_bytes();
        for (name, p, rf) in &cfgs.bytes {
            let want = blen(rf(cs));
            note(r, name, "&[u8]", run_b(p, b), want);
        }
    }
    for re in res {
        let o0 = re.oracle.find_at(leaked, 0).filter(|m| m.start() == 0).map(|m| m.len());
        note(r, &format!("regex({})", re.name), "&str", run_s(&re.at0, leaked), o0);
        if let Some(c0) = cs.first() {
            let off = c0.len_utf8();
            let o1 = re.oracle.find_at(leaked, off).filter(|m| m.start() == off).map(|m| off + m.len());
            note(r, &format!("any.then(regex({}))", re.name), "&str", run_s(&re.at1, leaked), o1);
        }
        if ascii {
            note(r, &format!("regex({})", re.name), "&[u8]", run_b(&re.at0b, leaked.as_bytes()), o0);
        }
    }
    if r.samples.len() < 5 && cs.len() >= 3 && r.cases % 11 == 0 {
        r.samples.push(format!("{:?}: int(10) matches {:?}, unicode::ident {:?}, whitespace {:?}, newline {:?} bytes", s, blen(r_int(cs, 10)), blen(r_uident(cs)), blen(r_ws(cs)), blen(r_newline(cs))));
    }
    // reclaim the leaked buffer
    // SAFETY: `leaked` came from Box::leak above and no parser result outlives this function
    unsafe { drop(Box::from_raw(leaked as *const str as *mut str)) };
}

fn regexes() -> Vec<Re> {
    use chumsky::regex::regex;
    REGEXES
        .iter()
        .map(|p| Re {
            name: p.to_string(),
            at0: s_slice(regex::<&str, Ex>(p)),
            at1: s_unit(any().then(regex::<&str, Ex>(p))),
            at0b: b_slice(regex::<&[u8], Eb>(p)),
            oracle: regex::Regex::new(p).unwrap(),
        })
        .collect()
}

pub fn run_unit(u: &TextUnit, cx: &ShardCtx) -> UnitResult {
    if u.name.starts_with("text-graphemes") {
        return run_graphemes_unit(u, cx);
    }
    let alpha: Vec<char> = ALPHABET.chars().collect();
    let total = count_strings(alpha.len(), u.len);
    let cfgs = configs();
    let res = regexes();
    let mut r = UnitResult { name: u.name.clone(), exhaustive: true, ..Default::default() };
    let mut distinct = HashSet::new();
    let mut idx = cx.shard;
    let mut n = 0u64;
    while idx < total {
        if !cx.skip.contains(&idx) {
            if n % 256 == 0 {
                (cx.progress)(idx);
            }
            let cs = nth_string(&alpha, idx);
            check_string(&cs, &cfgs, &res, &mut r, &u.name, &mut distinct, 0);
            n += 1;
        }
        idx += cx.nshards;
    }
    r.counters.insert("strings".into(), n);
    r.distinct_outcomes = distinct.len() as u64;
    r.desc = format!(
        "text: all {} strings of length <= {} over the {}-character alphabet {:?}; {} parser configurations on &str, {} on &[u8] (ASCII strings), {} regex patterns at offsets 0 and 1; oracle = std/unicode-ident predicates and the regex crate",
        total,
        u.len,
        alpha.len(),
        ALPHABET,
        cfgs.strs.len(),
        cfgs.bytes.len(),
        REGEXES.len()
    );
    r
}

// ---- text parsers on a Graphemes input (tokens are extended grapheme clusters) --------------------------------

use chumsky::text::{Grapheme, Graphemes};
use unicode_segmentation::UnicodeSegmentation;

/// the canonical lifting of the character classes to clusters: a cluster is whitespace / an identifier
/// continuation iff all its code points are; a digit iff it is one digit code point; a line terminator iff it is one of
/// the eight documented ones (CR LF being ONE cluster); an identifier start iff its first code point is and the rest continue
fn c_ws(c: &str) -> bool {
    c.chars().all(char::is_whitespace)
}
fn c_iws(c: &str) -> bool {
    c == " " || c == "\t"
}
fn c_nl(c: &str) -> bool {
    ["\r\n", "\n", "\r", "\x0B", "\x0C", "\u{85}", "\u{2028}", "\u{2029}"].contains(&c)
}
fn c_digit(c: &str, r: u32) -> bool {
    let mut it = c.chars();
    matches!((it.next(), it.next()), (Some(d), None) if d.is_digit(r))
}
fn c_istart(c: &str) -> bool {
    let mut it = c.chars();
    let f = it.next().unwrap();
    (unicode_ident::is_xid_start(f) || f == '_') && it.all(unicode_ident::is_xid_continue)
}
fn c_icont(c: &str) -> bool {
    c.chars().all(unicode_ident::is_xid_continue)
}
fn c_ascii(c: &str) -> Option<u8> {
    if c.len() == 1 && c.is_ascii() {
        Some(c.as_bytes()[0])
    } else {
        None
    }
}
fn take(cl: &[&str], f: impl Fn(&str) -> bool) -> usize {
    cl.iter().take_while(|c| f(c)).count()
}
type GRefFn = Box<dyn Fn(&[&str]) -> Option<usize>>;
type Gx<'a> = extra::Err<Rich<'a, &'a Grapheme>>;
type GP<'a> = Boxed<'a, 'a, &'a Graphemes, (&'a str, &'a str, Option<&'a str>), Gx<'a>>;
fn g_unit<'a, O: 'a>(p: impl Parser<'a, &'a Graphemes, O, Gx<'a>> + Clone + 'a) -> GP<'a> {
    p.to_slice().then(any().repeated().to_slice()).map(|(m, r): (&Graphemes, &Graphemes)| (m.as_str(), r.as_str(), None)).boxed()
}
fn g_slice<'a>(p: impl Parser<'a, &'a Graphemes, &'a Graphemes, Gx<'a>> + Clone + 'a) -> GP<'a> {
    p.map_with(|o: &Graphemes, e| (o.as_str(), { let m: &Graphemes = e.slice(); m.as_str() })).then(any().repeated().to_slice()).map(|((o, m), r): ((&str, &str), &Graphemes)| (m, r.as_str(), Some(o))).boxed()
}
fn one_grapheme(c: &'static str) -> &'static Grapheme {
    Graphemes::new(c).iter().next().unwrap()
}
pub fn g_configs<'a>() -> Vec<(String, GP<'a>, GRefFn)> {
    let mut v: Vec<(String, GP<'a>, GRefFn)> = vec![];
    for r in [2u32, 10, 16] {
        v.push((format!("int({r})"), g_slice(text::int(r)), Box::new(move |cl| match cl.first() {
            Some(&"0") => Some(1),
            Some(c) if c_digit(c, r) => Some(1 + take(&cl[1..], |c| c_digit(c, r))),
            _ => None,
        })));
        v.push((format!("digits({r})"), g_unit(text::digits(r)), Box::new(move |cl| Some(take(cl, |c| c_digit(c, r))).filter(|n| *n >= 1))));
    }
    v.push(("unicode::ident".into(), g_slice(text::unicode::ident()), Box::new(|cl| match cl.first() {
        Some(c) if c_istart(c) => Some(1 + take(&cl[1..], c_icont)),
        _ => None,
    })));
    v.push(("ascii::ident".into(), g_slice(text::ascii::ident()), Box::new(|cl| match cl.first().and_then(|c| c_ascii(c)) {
        Some(b) if b.is_ascii_alphabetic() || b == b'_' => Some(1 + take(&cl[1..], |c| c_ascii(c).is_some_and(|b| b.is_ascii_alphanumeric() || b == b'_'))),
        _ => None,
    })));
    v.push(("whitespace".into(), g_unit(text::whitespace()), Box::new(|cl| Some(take(cl, c_ws)))));
    v.push(("whitespace.at_least(1)".into(), g_unit(text::whitespace().at_least(1)), Box::new(|cl| Some(take(cl, c_ws)).filter(|n| *n >= 1))));
    v.push(("inline_whitespace".into(), g_unit(text::inline_whitespace()), Box::new(|cl| Some(take(cl, c_iws)))));
    v.push(("newline".into(), g_unit(text::newline()), Box::new(|cl| match cl.first() {
        Some(c) if c_nl(c) => Some(1),
        _ => None,
    })));
    v.push(("newline.repeated()".into(), g_unit(text::newline().repeated()), Box::new(|cl| Some(take(cl, c_nl)))));
    v.push(("just(a).padded()".into(), g_unit(just(one_grapheme("a")).padded()), Box::new(|cl| {
        let lead = take(cl, c_ws);
        match cl.get(lead) {
            Some(&"a") => Some(lead + 1 + take(&cl[lead + 1..], c_ws)),
            _ => None,
        }
    })));
    v
}

/// U+0301 combines with what precedes it (one cluster of two code points); CR LF is one cluster
pub const G_ALPHABET: &str = "09af_ \t\r\n\x0B\u{85}\u{2028}\u{301}é\u{A0}٣";

fn run_g<'a>(p: &GP<'a>, s: &'a str) -> Result<Option<usize>, String> {
    catch_unwind(AssertUnwindSafe(|| {
        let o = p.parse(Graphemes::new(s)).into_output();
        let c = p.check(Graphemes::new(s)).has_output();
        if c != o.is_some() {
            return Err(format!("check() accepted={c}, parse() accepted={}", o.is_some()));
        }
        match o {
            None => Ok(None),
            Some((m, rest, inner)) => {
                if m.as_ptr() != s.as_ptr() || rest.as_ptr() as usize != s.as_ptr() as usize + m.len() || m.len() + rest.len() != s.len() {
                    return Err("matched slice / rest are not the corresponding sub-slices of the input".into());
                }
                if let Some(i) = inner {
                    if i.as_ptr() != m.as_ptr() || i.len() != m.len() {
                        return Err(format!("the parser's own output slice {:?} is not the matched slice {:?}", i, m));
                    }
                }
                Ok(Some(m.len()))
            }
        }
    }))
    .unwrap_or_else(|e| Err(format!("panic: {}", cvh::e1::panic_msg(e))))
}

fn check_gstring(cs: &[char], cfgs: &[(String, GP<'static>, GRefFn)], r: &mut UnitResult, unit: &str, distinct: &mut HashSet<u64>) {
    use std::hash::{Hash, Hasher};
    let s: String = cs.iter().collect();
    let leaked: &'static str = Box::leak(s.clone().into_boxed_str());
    let cl: Vec<&str> = leaked.graphemes(true).collect();
    if cl.len() < cs.len() {
        *r.counters.entry("strings_with_a_multi_codepoint_cluster".into()).or_default() += 1;
    }
    for (name, p, rf) in cfgs {
        let want = rf(&cl).map(|n| cl[..n].iter().map(|c| c.len()).sum::<usize>());
        let got = run_g(p, leaked);
        r.cases += 1;
        r.validated += 1;
        r.states += 1;
        r.transitions += cl.len() as u64 + 1;
        *r.counters.entry(if want.is_some() { "accepted_prefixes" } else { "rejections" }.into()).or_default() += 1;
        let mut h = std::collections::hash_map::DefaultHasher::new();
        (name, want, cs.len() <= 2).hash(&mut h);
        if cs.len() <= 2 {
            cs.hash(&mut h);
        }
        if distinct.len() < 100_000 {
            distinct.insert(h.finish());
        }
        let bad = match &got {
            Err(m) => Some(m.clone()),
            Ok(g) if *g != want => Some(format!("matched {:?} bytes", g)),
            _ => None,
        };
        if let Some(why) = bad {
            r.mismatch_count += 1;
            *r.counters.entry(format!("mismatch:{name}/&Graphemes")).or_default() += 1;
            if r.mismatches.iter().filter(|m| m["parser"] == name.as_str()).count() < 2 && r.mismatches.len() < 30 {
                r.mismatches.push(json!({
                    "engine": "text", "unit": unit, "parser": name, "kind": "&Graphemes", "input": s,
                    "categories": ["text_language"], "detail": format!("{name} on &Graphemes {:?} (clusters {:?}): {why}; the documented language matches {:?} bytes", s, cl, want), "explained_by": [],
                }));
            }
        }
    }
    if r.samples.len() < 4 && cl.len() < cs.len() && cs.len() >= 3 {
        r.samples.push(format!("{:?} = clusters {:?}", s, cl));
    }
    // SAFETY: leaked above, nothing borrowed from it survives
    unsafe { drop(Box::from_raw(leaked as *const str as *mut str)) };
}

pub fn run_graphemes_unit(u: &TextUnit, cx: &ShardCtx) -> UnitResult {
    let alpha: Vec<char> = G_ALPHABET.chars().collect();
    let total = count_strings(alpha.len(), u.len);
    let cfgs = g_configs();
    let mut r = UnitResult { name: u.name.clone(), exhaustive: true, ..Default::default() };
    let mut distinct = HashSet::new();
    let mut idx = cx.shard;
    let mut n = 0u64;
    while idx < total {
        if !cx.skip.contains(&idx) {
            if n % 256 == 0 {
                (cx.progress)(idx);
            }
            check_gstring(&nth_string(&alpha, idx), &cfgs, &mut r, &u.name, &mut distinct);
            n += 1;
        }
        idx += cx.nshards;
    }
    r.counters.insert("strings".into(), n);
    r.distinct_outcomes = distinct.len() as u64;
    r.desc = format!(
        "text on &Graphemes: all {} strings of length <= {} over the {}-character alphabet {:?} (combining marks and CR LF form multi-code-point clusters); {} parser configurations; oracle = the character classes lifted to clusters (unicode-segmentation, std, unicode-ident); matched slices are sub-slices of the input",
        total, u.len, alpha.len(), G_ALPHABET, cfgs.len()
    );
    r
}

// ---- C04: output-eliding formulations of every text parser ----------------------------------------------------------

fn with_variant<T>(v: usize, f: impl FnOnce() -> T) -> T {
    VARIANT.with(|c| c.set(v));
    let r = f();
    VARIANT.with(|c| c.set(0));
    r
}

/// every text parser configuration and regex pattern, in each formulation of `VARIANTS` (the parser runs in check mode
/// inside ignored / to_slice / ignore_then / then_ignore / to; the anchored one makes check()'s acceptance depend on the
/// extent consumed in check mode), on every string: the matched prefix is the documented one in every formulation
pub fn run_elision(unit: &str, len: usize, cx: &ShardCtx) -> UnitResult {
    let alpha: Vec<char> = ALPHABET.chars().collect();
    let total = count_strings(alpha.len(), len);
    let sets: Vec<(usize, Cfgs<'static>, Vec<Re>)> = (1..VARIANTS.len()).map(|v| with_variant(v, || (v, configs(), regexes()))).collect();
    let mut r = UnitResult { name: unit.to_string(), exhaustive: true, ..Default::default() };
    let mut distinct = HashSet::new();
    let mut idx = cx.shard;
    let mut n = 0u64;
    while idx < total {
        if !cx.skip.contains(&idx) {
            if n % 64 == 0 {
                (cx.progress)(idx);
            }
            let cs = nth_string(&alpha, idx);
            for (v, cfgs, res) in &sets {
                check_string(&cs, cfgs, res, &mut r, unit, &mut distinct, *v);
            }
            n += 1;
        }
        idx += cx.nshards;
    }
    r.counters.insert("strings".into(), n);
    r.distinct_outcomes = distinct.len() as u64;
    r.samples.truncate(3);
    r.desc = format!(
        "text parsers and regex() in output-eliding formulations: all {} strings of length <= {} over {:?} x every text parser configuration (&str, &[u8]) and regex pattern x {} formulations {:?}: the same prefix is matched (and check() accepts the same inputs) as in the value-building formulation",
        total, len, ALPHABET, VARIANTS.len() - 1, &VARIANTS[1..]
    );
    r
}

// ---- totality on arbitrary Unicode / arbitrary bytes (C20) ---------------------------------------------------

pub const T_CHARS: [char; 6] = ['a', '0', 'é', '\u{301}', '\u{1D11E}', ' '];
pub const T_BYTES: [u8; 7] = [b'a', b'0', 0x00, 0x7F, 0x80, 0xC3, 0xFF];

/// every text parser configuration on every string over a nasty Unicode alphabet (&str) and on every
/// byte string over a nasty byte alphabet (&[u8], including invalid UTF-8): a ParseResult comes back
/// (no panic, no mid-character access), a result without output carries an error, check() agrees
pub fn run_totality(unit: &str, len: usize, cx: &ShardCtx) -> UnitResult {
    let mut r = UnitResult { name: unit.to_string(), exhaustive: true, ..Default::default() };
    let cfgs = configs();
    let res = regexes();
    let nstr = count_strings(T_CHARS.len(), len);
    let nbytes = count_strings(T_BYTES.len(), len);
    let mut distinct = HashSet::new();
    let bytes_alpha: Vec<char> = T_BYTES.iter().map(|b| *b as char).collect();
    let mut idx = cx.shard;
    while idx < nstr + nbytes {
        if cx.skip.contains(&idx) {
            idx += cx.nshards;
            continue;
        }
        if idx % 64 == cx.shard % 64 {
            (cx.progress)(idx);
        }
        if idx < nstr {
            let s: String = nth_string(&T_CHARS, idx).into_iter().collect();
            let leaked: &'static str = Box::leak(s.clone().into_boxed_str());
            let mut run = |name: &str, p: &SP<'static>| {
                r.cases += 1;
                r.validated += 1;
                r.states += 1;
                r.transitions += s.len() as u64 + 1;
                let got = catch_unwind(AssertUnwindSafe(|| {
                    let res = p.parse(leaked);
                    let (ho, ne) = (res.has_output(), res.errors().len());
                    let c = p.check(leaked);
                    let ce = c.errors().len();
                    (ho, ne, c.has_output(), ce)
                }));
                let bad = match got {
                    Err(e) => Some(format!("panic: {}", cvh::e1::panic_msg(e))),
                    Ok((ho, ne, co, ce)) => {
                        distinct.insert((name.len() as u64 * 31 + ho as u64, s.len()));
                        if !ho && ne == 0 { Some("no output and no error".into()) } else if ho != co || (!co && ce == 0) { Some("check() disagrees with parse()".into()) } else { None }
                    }
                };
                if let Some(why) = bad {
                    r.mismatch_count += 1;
                    if r.mismatches.len() < 20 {
                        r.mismatches.push(json!({"engine": "text-totality", "unit": unit, "parser": name, "kind": "&str", "input": s, "categories": ["totality"], "detail": format!("{name} on {:?}: {why}", s), "explained_by": []}));
                    }
                }
            };
            for (name, p, _) in &cfgs.strs {
                run(name, p);
            }
            for re in &res {
                run(&format!("regex({})", re.name), &re.at0);
                run(&format!("any.then(regex({}))", re.name), &re.at1);
            }
            // SAFETY: leaked above, nothing borrowed from it survives
            unsafe { drop(Box::from_raw(leaked as *const str as *mut str)) };
        } else {
            let b: Vec<u8> = nth_string(&bytes_alpha, idx - nstr).into_iter().map(|c| c as u8).collect();
            let leaked: &'static [u8] = Box::leak(b.clone().into_boxed_slice());
            let mut run = |name: &str, p: &BPb<'static>| {
                r.cases += 1;
                r.validated += 1;
                r.states += 1;
                r.transitions += b.len() as u64 + 1;
                let got = catch_unwind(AssertUnwindSafe(|| {
                    let res = p.parse(leaked);
                    let (ho, ne) = (res.has_output(), res.errors().len());
                    let c = p.check(leaked);
                    let ce = c.errors().len();
                    (ho, ne, c.has_output(), ce)
                }));
                let bad = match got {
                    Err(e) => Some(format!("panic: {}", cvh::e1::panic_msg(e))),
                    Ok((ho, ne, co, ce)) => {
                        distinct.insert((name.len() as u64 * 37 + ho as u64, b.len()));
                        if !ho && ne == 0 { Some("no output and no error".into()) } else if ho != co || (!co && ce == 0) { Some("check() disagrees with parse()".into()) } else { None }
                    }
                };
                if let Some(why) = bad {
                    r.mismatch_count += 1;
                    if r.mismatches.len() < 20 {
                        r.mismatches.push(json!({"engine": "text-totality", "unit": unit, "parser": name, "kind": "&[u8]", "input": format!("{:?}", b), "categories": ["totality"], "detail": format!("{name} on bytes {:?}: {why}", b), "explained_by": []}));
                    }
                }
            };
            for (name, p, _) in &cfgs.bytes {
                run(name, p);
            }
            for re in &res {
                run(&format!("regex({})", re.name), &re.at0b);
            }
            // SAFETY: as above
            unsafe { drop(Box::from_raw(leaked as *const [u8] as *mut [u8])) };
        }
        idx += cx.nshards;
    }
    if r.samples.is_empty() {
        r.samples.push(format!("e.g. unicode::ident, int(36), whitespace, regex(\\w+) on {:?}; ascii::ident, digits(16), regex([^a]) on bytes [0xC3, 0xFF, 0x00]", "a\u{301}é\u{1D11E}"));
    }
    r.distinct_outcomes = distinct.len() as u64;
    r.desc = format!("text parsers are total: all {} strings of length <= {len} over {:?} on &str and all {} byte strings over {:02X?} on &[u8] (invalid UTF-8 included) x every text parser configuration and regex pattern: parse and check return, failures carry an error, check agrees with parse", nstr, T_CHARS, nbytes, T_BYTES);
    r
}

pub fn units(tier: Tier) -> Vec<TextUnit> {
    vec![
        TextUnit { name: "text-all-strings".into(), len: if tier == Tier::Quick { 4 } else { 5 } },
        TextUnit { name: "text-graphemes".into(), len: if tier == Tier::Quick { 4 } else { 5 } },
    ]
}

pub fn replay(v: &Value) -> Result<Option<String>, String> {
    let input: Vec<char> = v["input"].as_str().ok_or("no input")?.chars().collect();
    if v["kind"].as_str() == Some("&Graphemes") {
        let mut r = UnitResult::default();
        let mut d = HashSet::new();
        check_gstring(&input, &g_configs(), &mut r, "replay", &mut d);
        return Ok(r.mismatches.iter().find(|m| m["parser"] == v["parser"]).or(r.mismatches.first()).map(|m| m["detail"].as_str().unwrap_or("").to_string()));
    }
    let cfgs = configs();
    let res = regexes();
    let mut r = UnitResult::default();
    let mut d = HashSet::new();
    let kind = v["kind"].as_str().unwrap_or("");
    let variant = VARIANTS.iter().position(|n| kind.ends_with(&format!(" as {n}"))).unwrap_or(0);
    let (cfgs, res) = if variant == 0 { (cfgs, res) } else { with_variant(variant, || (configs(), regexes())) };
    check_string(&input, &cfgs, &res, &mut r, "replay", &mut d, variant);
    let want = (v["parser"].as_str().unwrap_or(""), v["kind"].as_str().unwrap_or(""));
    Ok(r.mismatches.iter().find(|m| m["parser"] == want.0 && m["kind"] == want.1).or(r.mismatches.first()).map(|m| m["detail"].as_str().unwrap_or("").to_string()))
}

#[allow(dead_code)]
fn _unused(_: BTreeMap<(), ()>) {}
